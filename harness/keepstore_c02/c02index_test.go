package main

// C02, index clause under faults: an /index (or per-mount index) response that
// ends with the blank line must be complete. Every filesystem step of IndexTo
// is made to fail in turn (same point controller as the crash enumeration); a
// response produced while a directory could not be read must not look
// complete, and must still list only complete blocks with their true sizes.

import (
	"fmt"
	"os"
	"path/filepath"
	"sort"
	"strings"
	"testing"
	"time"

	"pgregory.net/rapid"
	"verif.local/vcommon/stats"
)

func TestVerifC02IndexFault(t *testing.T) {
	defer stats.Flush()
	vkCheckStaticPoints(t)
	rapid.Check(t, func(t *rapid.T) {
		base := vkScratch(t)
		defer os.RemoveAll(base)
		log := &vkLogBuf{}
		nvol := 1 + vkPick(t, "nvol", 2)
		conf := vkConf{TTL: time.Hour, TrashLifetime: time.Hour, BlobTrash: true, DeleteConc: 1, TrashConc: 1}
		var roots, uuids []string
		type blk struct {
			hash string
			size int
		}
		onVol := make([]map[string]int, nvol) // hash -> size
		old := time.Now().Add(-2 * time.Hour)
		for i := 0; i < nvol; i++ {
			root := filepath.Join(base, fmt.Sprintf("vol%d", i))
			os.MkdirAll(root, 0755)
			roots = append(roots, root)
			uuids = append(uuids, fmt.Sprintf("zzzzz-nyw5e-%015d", i))
			conf.Vols = append(conf.Vols, vkVolSpec{UUID: uuids[i], Root: root})
			onVol[i] = map[string]int{}
			nb := 1 + vkPick(t, "nblocks", 6)
			for k := 0; k < nb; k++ {
				data := []byte(fmt.Sprintf("index block %d", rapid.IntRange(0, 40).Draw(t, "blk")))
				if vkPick(t, "sibling", 3) == 0 && len(onVol[i]) > 0 {
					var hs []string
					for h := range onVol[i] {
						hs = append(hs, h)
					}
					sort.Strings(hs)
					data = c02Sibling(hs[0], int64(k))
				}
				h := vkMD5(data)
				vkWriteFile(t, vkBlockPath(root, h), data, old)
				onVol[i][h] = len(data)
				switch vkPick(t, "junk", 4) {
				case 0:
					vkWriteFile(t, filepath.Join(root, h[:3], "tmp"+h+"1234"), data[:len(data)/2], old)
				case 1:
					vkWriteFile(t, vkBlockPath(root, h)+".trash.1999999999", data, old)
				}
			}
			if vkPick(t, "junkdir", 3) == 0 {
				vkWriteFile(t, filepath.Join(root, "lost+found", "x"), []byte("x"), old)
			}
		}
		h := vkNewHandler(t, vkCluster(t, conf), log, uuids, 0)
		defer h.Close()
		var target string
		var vols []int
		switch vkPick(t, "target", 3) {
		case 0:
			target = "/index"
			for i := range roots {
				vols = append(vols, i)
			}
		case 1:
			v := vkPick(t, "tvol", nvol)
			target = "/mounts/" + uuids[v] + "/blocks"
			vols = []int{v}
		default:
			var hs []string
			for hh := range onVol[0] {
				hs = append(hs, hh)
			}
			sort.Strings(hs)
			target = "/index/" + hs[0][:1+vkPick(t, "plen", 3)]
			for i := range roots {
				vols = append(vols, i)
			}
		}
		prefix := ""
		if strings.HasPrefix(target, "/index/") {
			prefix = strings.TrimPrefix(target, "/index/")
		}
		check := func(body string, what string) (complete bool) {
			terminated := strings.HasSuffix(body, "\n\n") || body == "\n"
			listed := map[string]bool{}
			for _, ln := range strings.Split(strings.TrimRight(body, "\n"), "\n") {
				if ln == "" {
					continue
				}
				m := c02IndexLine.FindStringSubmatch(ln)
				if m == nil {
					t.Fatalf("C02 violated: %s of %s has a malformed line %q (body %q)", what, target, ln, body)
				}
				ok := false
				for _, i := range vols {
					if sz, there := onVol[i][m[1]]; there && fmt.Sprint(sz) == m[2] {
						ok = true
					}
				}
				if !ok {
					t.Fatalf("C02 violated: %s of %s lists %q which is not a block with that size on the queried volume(s)", what, target, ln)
				}
				listed[m[1]] = true
			}
			if terminated {
				for _, i := range vols {
					for hh := range onVol[i] {
						if strings.HasPrefix(hh, prefix) && !listed[hh] {
							t.Fatalf("C02 violated: %s of %s ends with the blank line (= complete) but block %s of volume %d is missing from it\n body: %q\n log:\n%s", what, target, hh, i, body, log.String())
						}
					}
				}
			}
			return terminated
		}
		// dry run
		ctl := newC02Ctl(0, -1, c02NoAction)
		verifInstall(ctl)
		r := h.vkDo("GET", target, vkToken, nil)
		verifInstall(nil)
		if r.Code != 200 || !check(r.Body.String(), "undisturbed response") {
			t.Fatalf("VERIF-INFRA: undisturbed GET %s: status %d body %q", target, r.Code, r.Body.String())
		}
		trace := append([]string{}, ctl.trace...)
		injected, truncated := 0, 0
		for k := range trace {
			log.Reset()
			c := newC02Ctl(0, k, c02Fail)
			verifInstall(c)
			r := h.vkDo("GET", target, vkToken, nil)
			verifInstall(nil)
			term := check(r.Body.String(), fmt.Sprintf("response with step %d (%s) failing", k, trace[k]))
			lab := "indexfault:not-feasible"
			if c.failLabel != "" {
				injected++
				lab = "indexfault:injected:" + vkStable(c.failLabel)
				if !term {
					truncated++
					lab += ":truncated"
				} else {
					lab += ":still-complete"
				}
			}
			stats.Case(stats.FP(target, len(trace), k, vkStable(trace[k]), fmt.Sprint(onVol)), c.failLabel != "", lab, "indexfault:"+strings.SplitN(target[1:]+"/", "/", 2)[0])
		}
		stats.InfoAdd("index_points_enumerated", int64(len(trace)))
		stats.InfoAdd("index_faults_injected", int64(injected))
		stats.InfoAdd("index_responses_truncated", int64(truncated))
	})
}
