//go:build verif
// +build verif

// Hook file for the C02 / C04 checks. It is injected into
// services/keepstore by `go test -overlay -tags verif` together with an
// instrumented copy of unix_volume.go (see /verif/tools/instrument). Nothing
// here is ever committed to the repository under test.
//
// With no controller installed every function below is a pass-through.

package main

import (
	"io"
	"os"
	"runtime"
	"strconv"
	"sync/atomic"
)

// verifController receives the instrumentation events.
type verifController interface {
	// Point is called immediately before the statement that performs the
	// filesystem step named by label ("L<line>:<func>:<callee>"). It may
	// block (yield point) or never return (runtime.Goexit).
	Point(label string)
	// Fail is asked, just before a wrappable step is executed, whether the
	// step should fail instead; a non-nil error is returned to the caller
	// in place of executing the step.
	Fail(label string) error
	// ChunkSize is the size of the pieces the block data is written in
	// (<=0: unchunked).
	ChunkSize() int
	// Enter / Exit bracket every instrumented function call.
	Enter(fn string)
	Exit(fn string)
}

type verifCtlBox struct{ c verifController }

var verifCtl atomic.Value // verifCtlBox

// verifInstall installs (or with nil removes) the controller.
func verifInstall(c verifController) { verifCtl.Store(verifCtlBox{c}) }

func verifCurrent() verifController {
	if b, ok := verifCtl.Load().(verifCtlBox); ok {
		return b.c
	}
	return nil
}

func verifPoint(label string) {
	if c := verifCurrent(); c != nil {
		c.Point(label)
	}
}

func verifEnter(fn string) func() {
	c := verifCurrent()
	if c == nil {
		return func() {}
	}
	c.Enter(fn)
	return func() { c.Exit(fn) }
}

func verifErr(label string, f func() error) error {
	if c := verifCurrent(); c != nil {
		if err := c.Fail(label); err != nil {
			return err
		}
	}
	return f()
}

func verifFileErr(label string, f func() (*os.File, error)) (*os.File, error) {
	if c := verifCurrent(); c != nil {
		if err := c.Fail(label); err != nil {
			return nil, err
		}
	}
	return f()
}

func verifInfoErr(label string, f func() (os.FileInfo, error)) (os.FileInfo, error) {
	if c := verifCurrent(); c != nil {
		if err := c.Fail(label); err != nil {
			return nil, err
		}
	}
	return f()
}

// verifChunkWriter wraps the destination of the data copy in WriteBlock. It
// hides the destination's ReadFrom so io.Copy goes through Write, splits
// every Write into chunks and makes each chunk two points: one before the
// chunk ("…:write") and one after half of it has been written
// ("…:write.mid", a partial write).
func verifChunkWriter(label string, w io.Writer) io.Writer {
	if verifCurrent() == nil {
		return w
	}
	return &verifChunked{label: label, w: w}
}

type verifChunked struct {
	label string
	w     io.Writer
}

func (cw *verifChunked) Write(p []byte) (int, error) {
	c := verifCurrent()
	if c == nil {
		return cw.w.Write(p)
	}
	size := c.ChunkSize()
	if size <= 0 {
		size = len(p)
	}
	done := 0
	for done < len(p) {
		end := done + size
		if end > len(p) {
			end = len(p)
		}
		chunk := p[done:end]
		c.Point(cw.label)
		if err := c.Fail(cw.label); err != nil {
			return done, err
		}
		half := len(chunk) / 2
		if half > 0 {
			n, err := cw.w.Write(chunk[:half])
			done += n
			if err != nil {
				return done, err
			}
			c.Point(cw.label + ".mid")
			if err := c.Fail(cw.label + ".mid"); err != nil {
				return done, err
			}
		}
		n, err := cw.w.Write(chunk[half:])
		done += n
		if err != nil {
			return done, err
		}
	}
	return done, nil
}

// verifGoID returns the current goroutine's id (parsed from the stack header;
// used only to tell the goroutines of a scenario apart).
func verifGoID() uint64 {
	var buf [64]byte
	n := runtime.Stack(buf[:], false)
	// "goroutine 123 [running]:"
	s := buf[:n]
	const prefix = "goroutine "
	if len(s) < len(prefix) {
		return 0
	}
	s = s[len(prefix):]
	i := 0
	for i < len(s) && s[i] >= '0' && s[i] <= '9' {
		i++
	}
	id, _ := strconv.ParseUint(string(s[:i]), 10, 64)
	return id
}
