package main

import (
	"testing"
	"time"
	"os"
)

func TestVerifC02ProbeSetup(t *testing.T) {
	base := vkScratch(t)
	defer os.RemoveAll(base)
	os.MkdirAll(base+"/v0", 0755)
	conf := vkConf{TTL: time.Hour, TrashLifetime: time.Hour, BlobTrash: true, DeleteConc: 1, TrashConc: 1, Vols: []vkVolSpec{{UUID: "zzzzz-nyw5e-000000000000000", Root: base + "/v0"}}}
	log := &vkLogBuf{}
	t0 := time.Now()
	for i := 0; i < 20; i++ {
		cl := vkCluster(t, conf)
		h := vkNewHandler(t, cl, log, nil, 0)
		h.Close()
	}
	t.Logf("setup: %v each", time.Since(t0)/20)
	cl := vkCluster(t, conf)
	h := vkNewHandler(t, cl, log, nil, 0)
	data := []byte("hello")
	t0 = time.Now()
	for i := 0; i < 20; i++ {
		r := h.vkDo("PUT", "/"+vkMD5(data), vkToken, data)
		if r.Code != 200 {
			t.Fatal(r.Code)
		}
	}
	t.Logf("put: %v each", time.Since(t0)/20)
	t0 = time.Now()
	for i := 0; i < 20; i++ {
		r := h.vkDo("GET", "/"+vkMD5(data), vkToken, nil)
		if r.Code != 200 {
			t.Fatal(r.Code)
		}
	}
	t.Logf("get: %v each", time.Since(t0)/20)
}
