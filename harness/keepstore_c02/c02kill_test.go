package main

// C02 real-kill cross-check (thorough tier): the simulated kill of the crash
// enumeration (runtime.Goexit at an instrumented point) is validated against
// real process death. The test binary re-executes itself as a child that
// performs the PUT on the same kind of scratch volumes and
//   (a) sends itself SIGKILL at instrumented point k, for every k; and
//   (b) runs with no controller under
//       strace -f -e inject=<syscall>:signal=SIGKILL:when=N
//       so that it dies at the entry of a real filesystem syscall.
// The parent then applies the same restart oracle.

import (
	"encoding/json"
	"fmt"
	"io/ioutil"
	"os"
	"os/exec"
	"path/filepath"
	"strconv"
	"strings"
	"syscall"
	"testing"

	"pgregory.net/rapid"
	"verif.local/vcommon/stats"
)

type c02ChildSpec struct {
	Conf     vkConf
	Order    []string
	Counter  uint32
	Hash     string
	DataFile string
	Chunk    int
	Target   int
	AckFile  string
	Trace    string // file the child appends each reached point to (self-kill mode)
}

// TestVerifC02Child is the re-executed child; it does nothing unless
// VERIF_C02_CHILD names a spec file.
func TestVerifC02Child(t *testing.T) {
	path := os.Getenv("VERIF_C02_CHILD")
	if path == "" {
		t.Skip("child mode only")
	}
	var sp c02ChildSpec
	buf, err := ioutil.ReadFile(path)
	if err == nil {
		err = json.Unmarshal(buf, &sp)
	}
	if err != nil {
		t.Fatalf("VERIF-INFRA: child spec: %v", err)
	}
	data, err := ioutil.ReadFile(sp.DataFile)
	if err != nil {
		t.Fatalf("VERIF-INFRA: child data: %v", err)
	}
	h := vkNewHandler(t, vkCluster(t, sp.Conf), &vkLogBuf{}, sp.Order, sp.Counter)
	if sp.Target >= 0 {
		verifInstall(newC02Ctl(sp.Chunk, sp.Target, c02SelfKill))
	}
	r := h.vkDo("PUT", "/"+sp.Hash, vkToken, data)
	// the acknowledgement reaches the "client" (a file) before anything else happens
	ioutil.WriteFile(sp.AckFile, []byte(strconv.Itoa(r.Code)), 0644)
}

func c02FindStrace() string {
	for _, d := range filepath.SplitList(vkOrigPath) {
		p := filepath.Join(d, "strace")
		if fi, err := os.Stat(p); err == nil && !fi.IsDir() {
			return p
		}
	}
	return ""
}

// c02RunChild runs the child (optionally under strace) and reports how it
// ended: "exit0", "killed" or an error text.
func c02RunChild(specPath string, wrapper []string) (string, string) {
	args := append(append([]string{}, wrapper...), os.Args[0], "-test.run", "^TestVerifC02Child$", "-test.count=1")
	cmd := exec.Command(args[0], args[1:]...)
	cmd.Env = []string{"VERIF_C02_CHILD=" + specPath, "PATH=/nonexistent-verif", "HOME=/nonexistent-verif", "GOMAXPROCS=2"}
	out, err := cmd.CombinedOutput()
	if err == nil {
		return "exit0", string(out)
	}
	if ee, ok := err.(*exec.ExitError); ok {
		if ws, ok := ee.Sys().(syscall.WaitStatus); ok {
			if ws.Signaled() && ws.Signal() == syscall.SIGKILL {
				return "killed", string(out)
			}
			// strace exits with 128+signal / kills itself with the tracee's signal
			if ws.ExitStatus() == 128+int(syscall.SIGKILL) {
				return "killed", string(out)
			}
		}
	}
	return "error: " + err.Error(), string(out)
}

func TestVerifC02RealKill(t *testing.T) {
	defer stats.Flush()
	vkCheckStaticPoints(t)
	strace := c02FindStrace()
	stats.Info("strace", strace)
	rapid.Check(t, func(t *rapid.T) {
		cs := c02Gen(t, false)
		env := &c02Env{base: vkScratch(t), log: &vkLogBuf{}}
		defer os.RemoveAll(env.base)
		for i := range cs.Vols {
			env.roots = append(env.roots, filepath.Join(env.base, fmt.Sprintf("vol%d", i)))
		}
		dataFile := filepath.Join(env.base, "data")
		ackFile := filepath.Join(env.base, "ack")
		specFile := filepath.Join(env.base, "spec.json")
		// in-process dry run: number of points
		dry := cs.run(t, env, -1, c02NoAction)
		if !dry.Responded || dry.Status != 200 {
			t.Fatalf("VERIF-INFRA: uninterrupted PUT did not succeed (status %d)", dry.Status)
		}
		child := func(target int, wrapper []string) (*c02Result, string) {
			cs.prepare(t, env)
			os.Remove(ackFile)
			ioutil.WriteFile(dataFile, cs.Data, 0644)
			sp := c02ChildSpec{Conf: cs.conf(env), Order: cs.Order, Counter: cs.Counter, Hash: cs.Hash, DataFile: dataFile, Chunk: cs.Chunk, Target: target, AckFile: ackFile}
			js, _ := json.Marshal(sp)
			ioutil.WriteFile(specFile, js, 0644)
			how, out := c02RunChild(specFile, wrapper)
			if strings.HasPrefix(how, "error") {
				t.Fatalf("VERIF-INFRA: child (target %d, wrapper %v) ended with %s\n%s", target, wrapper, how, out)
			}
			res := &c02Result{}
			if b, err := ioutil.ReadFile(ackFile); err == nil {
				res.Responded = true
				res.Status, _ = strconv.Atoi(string(b))
			}
			return res, how
		}
		check := func(res *c02Result, what string) {
			if msg := cs.oracle(t, env, res, c02Die); msg != "" {
				js, _ := json.Marshal(cs.describe())
				t.Fatalf("C02 violated (real process death, %s): %s\n  case: %s\n  child acknowledged=%v status=%d", what, msg, js, res.Responded, res.Status)
			}
		}
		// (a) SIGKILL at every instrumented point
		for k := range dry.Trace {
			res, how := child(k, nil)
			if how != "killed" {
				stats.Label("realkill:selfkill-not-reached")
			}
			check(res, fmt.Sprintf("SIGKILL at point %d %s", k, dry.Trace[k]))
			stats.Case(stats.FP("selfkill", cs.SizeClass, cs.Chunk, c02PreKey(cs), vkStable(dry.Trace[k]), c02Occurrence(dry.Trace, k)), true, "realkill:selfkill", "realkill:kind:"+vkKind(dry.Trace[k]))
		}
		// uninterrupted child: acknowledged => retrievable after the process is gone
		res, how := child(-1, nil)
		if how != "exit0" || !res.Responded || res.Status != 200 {
			t.Fatalf("VERIF-INFRA: uninterrupted child ended %s ack=%v status=%d", how, res.Responded, res.Status)
		}
		check(res, "no kill, process exited after the acknowledgement")
		stats.Case(stats.FP("child-complete", cs.SizeClass, c02PreKey(cs)), true, "realkill:complete")
		// (b) SIGKILL injected by strace at the entry of a filesystem syscall
		if strace == "" {
			stats.Label("realkill:strace-unavailable")
			return
		}
		for _, sc := range []string{"mkdirat", "utimensat", "renameat", "flock", "unlinkat"} {
			for _, when := range []int{1, 2} {
				res, how := child(-1, []string{strace, "-f", "-qq", "-o", "/dev/null", "-e", "trace=" + sc, "-e", fmt.Sprintf("inject=%s:signal=SIGKILL:when=%d", sc, when)})
				check(res, fmt.Sprintf("strace SIGKILL at entry of %s #%d (%s)", sc, when, how))
				lab := "realkill:strace:" + sc + ":" + how
				if how == "killed" && res.Responded {
					lab += ":after-ack"
				}
				stats.Case(stats.FP("strace", sc, when, cs.SizeClass, c02PreKey(cs)), how == "killed", lab)
			}
		}
		// data writes: kill at the N-th write(2) of a thread, N scanned over a small range
		for when := 1; when <= 12; when++ {
			res, how := child(-1, []string{strace, "-f", "-qq", "-o", "/dev/null", "-e", "trace=write,openat,close", "-e", fmt.Sprintf("inject=write:signal=SIGKILL:when=%d", when)})
			check(res, fmt.Sprintf("strace SIGKILL at entry of write #%d (%s)", when, how))
			stats.Case(stats.FP("strace", "write", when, cs.SizeClass, c02PreKey(cs)), how == "killed", "realkill:strace:write:"+how)
		}
	})
}
