package main

// C02: keepstore PUT is all-or-nothing and survives process death once
// acknowledged. Crash-point enumeration over the instrumented Directory-volume
// write path (see /verif/tools/instrument and hooks/verif_points.go).
//
// Per generated case (block size class x pre-state per volume x 1-2 volumes)
// an uninterrupted dry run records the filesystem points reached; then for
// EVERY point k and every action (die / cancel the request context / make the
// step fail) the PUT is re-run from the same pre-state, a FRESH handler is set
// up on the same directories and the oracle is applied.

import (
	"bytes"
	"encoding/json"
	"fmt"
	"io/ioutil"
	"math/rand"
	"os"
	"path/filepath"
	"regexp"
	"runtime"
	"sort"
	"strings"
	"sync"
	"syscall"
	"testing"
	"time"

	"pgregory.net/rapid"
	"verif.local/vcommon/stats"
)

// ---- controller ----------------------------------------------------------

const (
	c02Die       = "die"
	c02Cancel    = "cancel"    // disconnect, let the handler answer, then continue the step
	c02CancelNW  = "cancel-nw" // disconnect and continue the step immediately
	c02Fail      = "fail"
	c02SelfKill  = "sigkill" // child process only: real SIGKILL at the point
	c02NoAction  = "none"
	c02InjectMsg = "verif: injected failure"
)

type c02Ctl struct {
	mu          sync.Mutex
	chunk       int
	trace       []string
	target      int
	action      string
	dead        bool
	deadCh      chan struct{}
	acted       bool
	actedLabel  string
	failArmed   bool
	failLabel   string
	sticky      map[string]bool
	active      int
	disconnect  func()
	handlerGID  uint64
	handlerDone chan struct{}
}

func newC02Ctl(chunk, target int, action string) *c02Ctl {
	return &c02Ctl{chunk: chunk, target: target, action: action, deadCh: make(chan struct{}), sticky: map[string]bool{}}
}

func (c *c02Ctl) ChunkSize() int { return c.chunk }

func (c *c02Ctl) Enter(fn string) {
	c.mu.Lock()
	c.active++
	c.mu.Unlock()
}

func (c *c02Ctl) Exit(fn string) {
	c.mu.Lock()
	c.active--
	c.mu.Unlock()
}

func (c *c02Ctl) Active() int {
	c.mu.Lock()
	defer c.mu.Unlock()
	return c.active
}

func (c *c02Ctl) Point(label string) {
	c.mu.Lock()
	if c.dead {
		// the "process" is dead: nothing may touch the disk any more
		c.mu.Unlock()
		runtime.Goexit()
	}
	idx := len(c.trace)
	c.trace = append(c.trace, label)
	c.failArmed = false // an armed failure not consumed by the previous step was not feasible
	if idx != c.target {
		c.mu.Unlock()
		return
	}
	c.acted = true
	c.actedLabel = label
	switch c.action {
	case c02Die:
		c.dead = true
		close(c.deadCh)
		c.mu.Unlock()
		runtime.Goexit()
	case c02SelfKill:
		syscall.Kill(os.Getpid(), syscall.SIGKILL)
		select {}
	case c02Cancel, c02CancelNW:
		disc, done, hg := c.disconnect, c.handlerDone, c.handlerGID
		c.mu.Unlock()
		disc()
		if c.action == c02Cancel && verifGoID() != hg {
			// let the handler notice the disconnect and answer before
			// this step goes ahead (not verdict relevant: on timeout the
			// step simply continues).
			select {
			case <-done:
			case <-time.After(5 * time.Second):
			}
		}
	case c02Fail:
		c.failArmed = true
		c.mu.Unlock()
	default:
		c.mu.Unlock()
	}
}

func (c *c02Ctl) Fail(label string) error {
	c.mu.Lock()
	defer c.mu.Unlock()
	if c.dead {
		return nil
	}
	if c.sticky[label] {
		return &os.PathError{Op: c02InjectMsg, Path: label, Err: syscall.EIO}
	}
	if c.failArmed && vkKind(label) == "lock" {
		// the Serialize mutex is not a filesystem step
		c.failArmed = false
		return nil
	}
	if c.failArmed {
		c.failArmed = false
		c.failLabel = label
		c.sticky[label] = true
		return &os.PathError{Op: c02InjectMsg, Path: label, Err: syscall.EIO}
	}
	return nil
}

// ---- case ----------------------------------------------------------------

const (
	preAbsent     = "absent"
	preEmptyDir   = "emptydir"
	preIntact     = "intact"
	preTruncated  = "corrupt-trunc"
	preFlipped    = "corrupt-flip"
	preExtended   = "corrupt-ext"
	preOtherBlock = "corrupt-other"
	preStaleTmp   = "staletmp"
	preIntactTmp  = "intact+staletmp"
)

type c02Vol struct {
	UUID      string
	ReadOnly  bool
	Pre       string
	PreBytes  []byte // content of the pre-existing file named H ("" kinds: nil)
	TmpBytes  []byte // content of the stale temp file, if any
	Bystander bool   // another block in the same directory
}

type c02Case struct {
	Size      int
	SizeClass string
	Chunk     int
	Data      []byte
	Hash      string
	Serialize bool
	Vols      []c02Vol
	Order     []string
	Counter   uint32
	ByData    []byte // bystander block sharing H's directory
	ByHash    string
}

func (cs *c02Case) describe() map[string]interface{} {
	var vols []string
	for _, v := range cs.Vols {
		s := v.Pre
		if v.ReadOnly {
			s += ",ro"
		}
		if v.Bystander {
			s += ",bystander"
		}
		vols = append(vols, s)
	}
	return map[string]interface{}{"size": cs.Size, "sizeclass": cs.SizeClass, "chunk": cs.Chunk, "hash": cs.Hash,
		"serialize": cs.Serialize, "vols": vols, "order": cs.Order, "counter": cs.Counter}
}

func c02IsCorrupt(pre string) bool { return strings.HasPrefix(pre, "corrupt-") }

func c02Bytes(seed int64, n int) []byte {
	r := rand.New(rand.NewSource(seed))
	b := make([]byte, n)
	r.Read(b)
	return b
}

// c02Sibling finds a block whose MD5 shares the first three hex digits with
// hash (so it lives in the same directory).
func c02Sibling(hash string, seed int64) []byte {
	for i := 0; ; i++ {
		b := []byte(fmt.Sprintf("bystander-%d-%d", seed, i))
		h := vkMD5(b)
		if h[:3] == hash[:3] && h != hash {
			return b
		}
	}
}

func c02Gen(t *rapid.T, thorough bool) *c02Case {
	cs := &c02Case{}
	cs.Chunk = []int{4, 64, 1000}[vkPick(t, "chunk", 3)]
	classes := []string{"0", "1", "chunk-1", "chunk", "chunk+1", "chunks"}
	if thorough {
		classes = append(classes, "multiwrite")
	}
	cs.SizeClass = vkPickStr(t, "sizeclass", classes)
	switch cs.SizeClass {
	case "0":
		cs.Size = 0
	case "1":
		cs.Size = 1
	case "chunk-1":
		cs.Size = cs.Chunk - 1
	case "chunk":
		cs.Size = cs.Chunk
	case "chunk+1":
		cs.Size = cs.Chunk + 1
	case "chunks":
		cs.Size = cs.Chunk*(2+vkPick(t, "nchunks", 3)) + rapid.IntRange(0, cs.Chunk-1).Draw(t, "rest")
	case "multiwrite":
		// io.Copy moves 32 KiB at a time: several Write calls
		cs.Chunk = 30000
		cs.Size = 70000 + rapid.IntRange(0, 10).Draw(t, "rest")
	}
	cs.Data = c02Bytes(rapid.Int64().Draw(t, "dataseed"), cs.Size)
	cs.Hash = vkMD5(cs.Data)
	cs.Serialize = vkPick(t, "serialize", 2) == 0
	nvol := 1 + vkPick(t, "nvol", 2)
	pres := []string{preAbsent, preAbsent, preEmptyDir, preIntact, preIntact, preTruncated, preFlipped, preExtended, preOtherBlock, preStaleTmp, preIntactTmp}
	anyBy := false
	for i := 0; i < nvol; i++ {
		v := c02Vol{UUID: fmt.Sprintf("zzzzz-nyw5e-%015d", i)}
		v.Pre = vkPickStr(t, fmt.Sprintf("pre%d", i), pres)
		if cs.Size == 0 && (v.Pre == preTruncated || v.Pre == preFlipped) {
			v.Pre = preExtended
		}
		switch v.Pre {
		case preIntact, preIntactTmp:
			v.PreBytes = cs.Data
		case preTruncated:
			v.PreBytes = append([]byte{}, cs.Data[:rapid.IntRange(0, cs.Size-1).Draw(t, "trunc")]...)
		case preFlipped:
			v.PreBytes = append([]byte{}, cs.Data...)
			v.PreBytes[rapid.IntRange(0, cs.Size-1).Draw(t, "flippos")] ^= byte(1 << uint(rapid.IntRange(0, 7).Draw(t, "flipbit")))
		case preExtended:
			v.PreBytes = append(append([]byte{}, cs.Data...), c02Bytes(7, rapid.IntRange(1, 9).Draw(t, "ext"))...)
		case preOtherBlock:
			v.PreBytes = c02Bytes(rapid.Int64().Draw(t, "otherseed"), rapid.SampledFrom([]int{cs.Size, cs.Size + 3, 2}).Draw(t, "othersize"))
			if bytes.Equal(v.PreBytes, cs.Data) {
				v.PreBytes = append(v.PreBytes, 'x')
			}
		}
		if v.Pre == preStaleTmp || v.Pre == preIntactTmp {
			v.TmpBytes = append([]byte{}, cs.Data[:rapid.IntRange(0, cs.Size).Draw(t, "tmplen")]...)
		}
		v.Bystander = vkPick(t, "bystander", 3) == 0
		anyBy = anyBy || v.Bystander
		cs.Vols = append(cs.Vols, v)
	}
	if nvol == 2 && vkPick(t, "ro", 5) == 0 {
		cs.Vols[vkPick(t, "rovol", 2)].ReadOnly = true
	}
	for _, v := range cs.Vols {
		cs.Order = append(cs.Order, v.UUID)
	}
	if nvol == 2 && vkPick(t, "swap", 2) == 0 {
		cs.Order[0], cs.Order[1] = cs.Order[1], cs.Order[0]
	}
	cs.Counter = uint32(vkPick(t, "counter", 2))
	if anyBy {
		cs.ByData = c02Sibling(cs.Hash, int64(cs.Size))
		cs.ByHash = vkMD5(cs.ByData)
	}
	return cs
}

// ---- one execution ---------------------------------------------------------

type c02Env struct {
	base  string
	roots []string
	log   *vkLogBuf
}

func (cs *c02Case) staleTmpName() string { return "tmp" + cs.Hash + "123456789" }

// prepare wipes the volume directories and recreates the pre-state.
func (cs *c02Case) prepare(t vkT, env *c02Env) {
	old := time.Now().Add(-3 * time.Hour)
	for i, v := range cs.Vols {
		root := env.roots[i]
		os.RemoveAll(root)
		if err := os.MkdirAll(root, 0755); err != nil {
			t.Fatalf("VERIF-INFRA: %v", err)
		}
		bdir := filepath.Join(root, cs.Hash[:3])
		if v.Pre != preAbsent {
			os.MkdirAll(bdir, 0755)
		}
		if v.PreBytes != nil {
			vkWriteFile(t, filepath.Join(bdir, cs.Hash), v.PreBytes, old)
		}
		if v.TmpBytes != nil {
			vkWriteFile(t, filepath.Join(bdir, cs.staleTmpName()), v.TmpBytes, old)
		}
		if v.Bystander {
			vkWriteFile(t, filepath.Join(root, cs.ByHash[:3], cs.ByHash), cs.ByData, old)
		}
	}
}

func (cs *c02Case) conf(env *c02Env) vkConf {
	c := vkConf{TTL: 14 * 24 * time.Hour, TrashLifetime: time.Hour, BlobTrash: true, DeleteConc: 1, TrashConc: 1}
	for i, v := range cs.Vols {
		c.Vols = append(c.Vols, vkVolSpec{UUID: v.UUID, Root: env.roots[i], ReadOnly: v.ReadOnly, Serialize: cs.Serialize})
	}
	return c
}

type c02Result struct {
	Trace      []string
	Acted      bool
	ActedLabel string
	FailLabel  string
	Responded  bool // the handler goroutine ran to completion
	Status     int
	Body       string
}

// run performs the PUT with the given plan and leaves the directories in the
// state a freshly started process would find.
func (cs *c02Case) run(t vkT, env *c02Env, target int, action string) *c02Result {
	cs.prepare(t, env)
	cl := vkCluster(t, cs.conf(env))
	h := vkNewHandler(t, cl, env.log, cs.Order, cs.Counter)
	defer h.Close()
	ctl := newC02Ctl(cs.Chunk, target, action)
	resp := vkNewResp()
	ctl.disconnect = resp.Disconnect
	ctl.handlerDone = make(chan struct{})
	gidCh := make(chan struct{})
	verifInstall(ctl)
	defer verifInstall(nil)
	go func() {
		defer close(ctl.handlerDone)
		ctl.mu.Lock()
		ctl.handlerGID = verifGoID()
		ctl.mu.Unlock()
		close(gidCh)
		h.ServeHTTP(resp, vkRequest("PUT", "/"+cs.Hash, vkToken, cs.Data))
	}()
	<-gidCh
	res := &c02Result{}
	timeout := time.After(120 * time.Second)
	select {
	case <-ctl.handlerDone:
	case <-ctl.deadCh:
		// Killed at the target point. Everything that still runs belongs
		// to the dead process: release the blocked handler goroutine; any
		// goroutine that reaches a filesystem step exits there instead.
		resp.Disconnect()
		select {
		case <-ctl.handlerDone:
		case <-timeout:
			t.Fatalf("VERIF-INFRA: handler goroutine did not finish within 120 s after the simulated kill (case %v, point %d)", cs.describe(), target)
		}
	case <-timeout:
		t.Fatalf("VERIF-INFRA: PUT did not finish within 120 s (case %v, point %d action %s, trace %v)", cs.describe(), target, action, ctl.trace)
	}
	// wait for background volume calls (WriteBlock keeps running after the
	// handler answered a disconnected client)
	deadline := time.Now().Add(120 * time.Second)
	for ctl.Active() != 0 {
		if time.Now().After(deadline) {
			t.Fatalf("VERIF-INFRA: %d volume call(s) still running 120 s after the request ended (case %v, point %d action %s)", ctl.Active(), cs.describe(), target, action)
		}
		time.Sleep(100 * time.Microsecond)
	}
	ctl.mu.Lock()
	res.Trace = append([]string{}, ctl.trace...)
	res.Acted, res.ActedLabel, res.FailLabel = ctl.acted, ctl.actedLabel, ctl.failLabel
	dead := ctl.dead
	ctl.mu.Unlock()
	if !dead {
		res.Responded = true
		res.Status = resp.Code
		res.Body = resp.Body.String()
	}
	return res
}

// ---- oracle ----------------------------------------------------------------

var c02IndexLine = regexp.MustCompile(`^([0-9a-f]{32})\+(\d+) (\d+)$`)

// oracle sets up a FRESH handler on the directories and checks what the
// property states. It returns "" or a description of the violation.
func (cs *c02Case) oracle(t vkT, env *c02Env, res *c02Result, action string) string {
	acked := res.Responded && res.Status == 200
	// 1. files on disk
	snaps := make([]map[string][]byte, len(cs.Vols))
	rel := filepath.Join(cs.Hash[:3], cs.Hash)
	for i, v := range cs.Vols {
		snap, err := vkSnapshot(env.roots[i])
		if err != nil {
			t.Fatalf("VERIF-INFRA: snapshot: %v", err)
		}
		snaps[i] = snap
		got, ok := snap[rel]
		switch {
		case !ok:
			if v.Pre == preIntact || v.Pre == preIntactTmp {
				return fmt.Sprintf("volume %d: pre-existing intact copy of %s disappeared", i, cs.Hash)
			}
		case bytes.Equal(got, cs.Data):
		case c02IsCorrupt(v.Pre) && bytes.Equal(got, v.PreBytes):
			// untouched pre-existing corrupt copy (accounted for in the model)
		default:
			return fmt.Sprintf("volume %d: block file %s holds %d bytes (md5 %s) which is neither the complete block (%d bytes) nor the pre-existing content (pre-state %s)", i, rel, len(got), vkMD5(got), len(cs.Data), v.Pre)
		}
		if v.Bystander {
			brel := filepath.Join(cs.ByHash[:3], cs.ByHash)
			if b, ok := snap[brel]; !ok || !bytes.Equal(b, cs.ByData) {
				return fmt.Sprintf("volume %d: unrelated block %s was modified or removed", i, brel)
			}
		}
		if v.ReadOnly {
			// nothing may change on a read-only volume
			want := map[string][]byte{}
			if v.PreBytes != nil {
				want[rel] = v.PreBytes
			}
			if v.TmpBytes != nil {
				want[filepath.Join(cs.Hash[:3], cs.staleTmpName())] = v.TmpBytes
			}
			if v.Bystander {
				want[filepath.Join(cs.ByHash[:3], cs.ByHash)] = cs.ByData
			}
			same := len(want) == len(snap)
			for k, b := range want {
				if g, ok := snap[k]; !ok || !bytes.Equal(g, b) {
					same = false
				}
			}
			if !same {
				return fmt.Sprintf("read-only volume %d: files changed: have %v want %v", i, vkSortedKeys(snap), vkSortedKeys(want))
			}
		}
		if action == c02Fail && res.FailLabel != "" {
			for name := range snap {
				base := filepath.Base(name)
				if strings.HasPrefix(base, "tmp") && base != cs.staleTmpName() {
					return fmt.Sprintf("volume %d: temp file %s left behind after the failed step %s", i, name, res.FailLabel)
				}
			}
		}
	}
	// 2. a freshly started process on the same volumes
	h := vkNewHandler(t, vkCluster(t, cs.conf(env)), env.log, cs.Order, 0)
	defer h.Close()
	get := h.vkDo("GET", "/"+cs.Hash, vkToken, nil)
	switch {
	case get.Code == 200:
		if !bytes.Equal(get.Body.Bytes(), cs.Data) {
			return fmt.Sprintf("GET %s after restart: 200 with %d bytes (md5 %s), want the complete block (%d bytes) or an error", cs.Hash, get.Body.Len(), vkMD5(get.Body.Bytes()), len(cs.Data))
		}
	case get.Code >= 400:
		if acked {
			return fmt.Sprintf("PUT was acknowledged (200 %q) but GET %s after restart returns %d %q", strings.TrimSpace(res.Body), cs.Hash, get.Code, strings.TrimSpace(get.Body.String()))
		}
	default:
		return fmt.Sprintf("GET %s after restart: unexpected status %d", cs.Hash, get.Code)
	}
	// 3. index of every mount, and the combined index
	checkIndex := func(what string, body string, vols []int) string {
		if !strings.HasSuffix(body, "\n\n") && body != "\n" {
			return fmt.Sprintf("%s does not end with a blank line: %q", what, body)
		}
		lines := strings.Split(strings.TrimSuffix(body, "\n"), "\n")
		lines = lines[:len(lines)-1]
		for _, ln := range lines {
			m := c02IndexLine.FindStringSubmatch(ln)
			if m == nil {
				return fmt.Sprintf("%s has a malformed line %q", what, ln)
			}
			okLine := false
			why := "no such file"
			for _, i := range vols {
				var content []byte
				ok := false
				for name, b := range snaps[i] {
					if filepath.Base(name) == m[1] {
						content, ok = b, true
					}
				}
				if !ok {
					continue
				}
				if fmt.Sprint(len(content)) != m[2] {
					why = fmt.Sprintf("file has %d bytes", len(content))
					continue
				}
				if vkMD5(content) != m[1] && !(m[1] == cs.Hash && c02IsCorrupt(cs.Vols[i].Pre) && bytes.Equal(content, cs.Vols[i].PreBytes)) {
					why = fmt.Sprintf("file content has md5 %s", vkMD5(content))
					continue
				}
				okLine = true
			}
			if !okLine {
				return fmt.Sprintf("%s lists %q but that is not a complete block with that size on the volume(s) (%s)", what, ln, why)
			}
		}
		return ""
	}
	all := make([]int, len(cs.Vols))
	for i, v := range cs.Vols {
		all[i] = i
		r := h.vkDo("GET", "/mounts/"+v.UUID+"/blocks", vkToken, nil)
		if r.Code != 200 {
			return fmt.Sprintf("GET /mounts/%s/blocks after restart: status %d", v.UUID, r.Code)
		}
		if msg := checkIndex(fmt.Sprintf("index of volume %d", i), r.Body.String(), []int{i}); msg != "" {
			return msg
		}
	}
	r := h.vkDo("GET", "/index", vkToken, nil)
	if r.Code != 200 {
		return fmt.Sprintf("GET /index after restart: status %d", r.Code)
	}
	if msg := checkIndex("/index", r.Body.String(), all); msg != "" {
		return msg
	}
	r = h.vkDo("GET", "/index/"+cs.Hash[:3], vkToken, nil)
	if r.Code != 200 {
		return fmt.Sprintf("GET /index/%s after restart: status %d", cs.Hash[:3], r.Code)
	}
	if msg := checkIndex("/index/"+cs.Hash[:3], r.Body.String(), all); msg != "" {
		return msg
	}
	return ""
}

// ---- property ----------------------------------------------------------------

func c02Actions(thorough bool) []string {
	if thorough {
		return []string{c02Die, c02Cancel, c02CancelNW, c02Fail}
	}
	return []string{c02Die, c02Cancel, c02Fail}
}

func c02Window(label string) bool {
	// temp-file creation .. rename of the write path
	if vkFunc(label) != "WriteBlock" {
		return false
	}
	switch vkKind(label) {
	case "mkdir", "other":
		return false
	}
	return true
}

func TestVerifC02Crash(t *testing.T) {
	defer stats.Flush()
	kinds := vkCheckStaticPoints(t)
	stats.Info("static_points", verifStaticPoints)
	stats.Info("static_point_kinds", fmt.Sprint(kinds))
	thorough := os.Getenv("VERIF_TIER") == "thorough"
	rapid.Check(t, func(t *rapid.T) {
		cs := c02Gen(t, thorough)
		env := &c02Env{base: vkScratch(t), log: &vkLogBuf{}}
		defer os.RemoveAll(env.base)
		for i := range cs.Vols {
			env.roots = append(env.roots, filepath.Join(env.base, fmt.Sprintf("vol%d", i)))
		}
		fail := func(res *c02Result, k int, action, msg string) {
			js, _ := json.Marshal(cs.describe())
			t.Fatalf("C02 violated: %s\n  case: %s\n  action %q at point %d (%s)\n  trace of this run: %v\n  PUT responded=%v status=%d body=%q\n  handler log:\n%s",
				msg, js, action, k, res.ActedLabel, res.Trace, res.Responded, res.Status, strings.TrimSpace(res.Body), env.log.String())
		}
		// dry run
		dry := cs.run(t, env, -1, c02NoAction)
		if !dry.Responded || dry.Status != 200 {
			t.Fatalf("VERIF-INFRA: uninterrupted PUT did not succeed (status %d %q) for case %v; log:\n%s", dry.Status, dry.Body, cs.describe(), env.log.String())
		}
		if msg := cs.oracle(t, env, dry, c02NoAction); msg != "" {
			fail(dry, -1, c02NoAction, msg)
		}
		n := len(dry.Trace)
		reachedKinds := map[string]bool{}
		for _, l := range dry.Trace {
			reachedKinds[vkKind(l)] = true
			stats.Label("point:" + vkStable(l))
		}
		stats.InfoAdd("points_enumerated", int64(n))
		executions := 1
		anyPre := false
		for _, v := range cs.Vols {
			if v.Pre != preAbsent && v.Pre != preEmptyDir {
				anyPre = true
			}
		}
		for k := 0; k < n; k++ {
			for _, action := range c02Actions(thorough) {
				env.log.Reset()
				res := cs.run(t, env, k, action)
				executions++
				if !res.Acted {
					// the run took a different path than the dry run
					// (possible only after a disconnect race); the
					// oracle still applies to whatever happened
					stats.Label("target-not-reached")
				} else if vkStable(res.ActedLabel) != vkStable(dry.Trace[k]) {
					stats.Label("point-differs-from-dry-run")
				}
				if msg := cs.oracle(t, env, res, action); msg != "" {
					fail(res, k, action, msg)
				}
				lab := []string{"action:" + action, "kind:" + vkKind(dry.Trace[k])}
				switch {
				case action == c02Fail && res.FailLabel == "":
					lab = append(lab, "fail:not-feasible")
				case action == c02Fail:
					lab = append(lab, "fail:injected")
				}
				if res.Responded {
					lab = append(lab, fmt.Sprintf("%s->status:%d", action, res.Status))
				} else {
					lab = append(lab, action+"->no-response")
				}
				nontrivial := anyPre || c02Window(dry.Trace[k])
				stats.Case(stats.FP(cs.SizeClass, cs.Chunk, cs.Serialize, c02PreKey(cs), vkStable(dry.Trace[k]), c02Occurrence(dry.Trace, k), action), nontrivial, lab...)
			}
		}
		stats.InfoAdd("executions", int64(executions))
		var vl []string
		for _, v := range cs.Vols {
			vl = append(vl, "pre:"+v.Pre)
			if v.ReadOnly {
				vl = append(vl, "vol:readonly")
			}
		}
		sort.Strings(vl)
		stats.Label(vl...)
		stats.Label("sizeclass:"+cs.SizeClass, fmt.Sprintf("nvol:%d", len(cs.Vols)), fmt.Sprintf("serialize:%v", cs.Serialize), "cases")
		for _, k := range []string{"mkdir", "create", "write", "close", "chtimes", "rename", "open", "flock"} {
			if reachedKinds[k] {
				stats.Label("case-reaches:" + k)
			}
		}
		if stats.WantSample("case") {
			d := cs.describe()
			d["points"] = dry.Trace
			stats.Sample("case", d)
		}
	})
}

func c02PreKey(cs *c02Case) string {
	var s []string
	for _, v := range cs.Vols {
		s = append(s, fmt.Sprintf("%s/%v/%v", v.Pre, v.ReadOnly, v.Bystander))
	}
	return strings.Join(s, ";") + "|" + strings.Join(cs.Order, ",") + fmt.Sprint(cs.Counter)
}

// c02Occurrence tells the how-manieth occurrence of its label point k is.
func c02Occurrence(trace []string, k int) int {
	n := 0
	for i := 0; i < k; i++ {
		if trace[i] == trace[k] {
			n++
		}
	}
	return n
}

var _ = ioutil.Discard
