package federation

// C18 (lib/controller/federation side): federated collection fetches are
// verified and only signatures are rewritten.
//
// A Conn is assembled from stub backends whose answers are scripted per case
// and released in a generated order. Oracle (independent of the code under
// test): vcommon/ref.PDH and vcommon/fedgen.RefRewrite.

import (
	"context"
	"errors"
	"fmt"
	"io/ioutil"
	"runtime"
	"sort"
	"strings"
	"sync"
	"testing"
	"time"

	"git.arvados.org/arvados.git/sdk/go/arvados"
	"git.arvados.org/arvados.git/sdk/go/arvadostest"
	"git.arvados.org/arvados.git/sdk/go/ctxlog"
	"github.com/sirupsen/logrus"
	"pgregory.net/rapid"
	"verif.local/vcommon/fedgen"
	"verif.local/vcommon/mgen"
	"verif.local/vcommon/ref"
	"verif.local/vcommon/stats"
)

type c18httpErr struct {
	code int
	msg  string
}

func (e c18httpErr) Error() string   { return fmt.Sprintf("stub error %d: %s", e.code, e.msg) }
func (e c18httpErr) HTTPStatus() int { return e.code }

// answer kinds
const (
	c18Honest    = "honest"
	c18Tamper    = "tamper" // + tamper kind in .tamper
	c18Different = "different"
	c18NotFound  = "404"
	c18ServerErr = "5xx"
	c18Hang      = "hang"
	// a status other than 200/404/5xx; the answer may nevertheless carry a
	// collection record (honest, tampered or different)
	c18Status = "status"
)

// statuses a remote may use besides 200, 404 and 5xx
var c18oddStatuses = []int{201, 202, 203, 206, 299, 301, 400, 401, 403, 410, 422, 404, 500}

type c18answer struct {
	kind   string
	tamper string // tamper kind when kind == c18Tamper
	detail string
	text   string // manifest text sent (200 answers)
	err    error  // error answers
	valid  bool   // 200 answer whose reference PDH equals the requested hash+size

	code      int    // kind == c18Status: the status
	carries   string // kind == c18Status: what the record carried with it is (honest, tamper-<k>, different, nothing)
	textValid bool   // the answer carries a manifest whose reference PDH equals the requested hash+size
}

func (a c18answer) is200() bool { return a.err == nil && a.kind != c18Hang }

// hasText: the answer hands a manifest to the code under test (with status
// 200, or next to an error status).
func (a c18answer) hasText() bool {
	return a.kind != c18Hang && (a.err == nil || (a.kind == c18Status && a.carries != "nothing"))
}

func (a c18answer) label() string {
	switch a.kind {
	case c18Tamper:
		return "tamper-" + a.tamper
	case c18Status:
		return fmt.Sprintf("status-%d", a.code)
	}
	return a.kind
}

func (a c18answer) statusClass() string {
	c := "4xx(not-404)"
	switch {
	case a.code == 404 || a.code >= 500:
		c = "404/5xx"
	case a.code < 300:
		c = "2xx(not-200)"
	case a.code < 400:
		c = "3xx"
	}
	if a.carries == "nothing" {
		return "status-" + c + "/no-record"
	}
	if a.textValid {
		return "status-" + c + "/carrying-valid-manifest"
	}
	return "status-" + c + "/carrying-invalid-manifest"
}

type c18stub struct {
	arvadostest.APIStub
	id       string // cluster id, "" for the local backend
	ans      c18answer
	release  chan struct{} // closed by the harness: the answer may be sent
	released bool          // harness-side flag: release has been closed
	abort    chan struct{} // closed at the end of the case (never leaks a goroutine)

	mu       sync.Mutex
	ctxs     []context.Context
	uuids    []string
	entered  chan struct{} // closed on first entry
	returned chan struct{} // closed when the first call has returned
	nreturn  int
}

func (s *c18stub) CollectionGet(ctx context.Context, opts arvados.GetOptions) (arvados.Collection, error) {
	s.mu.Lock()
	s.ctxs = append(s.ctxs, ctx)
	s.uuids = append(s.uuids, opts.UUID)
	first := len(s.ctxs) == 1
	s.mu.Unlock()
	if first {
		close(s.entered)
	}
	defer func() {
		s.mu.Lock()
		s.nreturn++
		n := s.nreturn
		s.mu.Unlock()
		if n == 1 {
			close(s.returned)
		}
	}()
	if s.ans.kind == c18Hang {
		select {
		case <-ctx.Done():
			return arvados.Collection{}, ctx.Err()
		case <-s.abort:
			return arvados.Collection{}, errors.New("VERIF-INFRA: hanging stub aborted by harness")
		}
	}
	select {
	case <-s.release:
	case <-ctx.Done():
		return arvados.Collection{}, ctx.Err()
	case <-s.abort:
		return arvados.Collection{}, errors.New("VERIF-INFRA: stub aborted by harness")
	}
	if s.ans.err != nil && s.ans.hasText() {
		// an error status whose body nevertheless is a collection record
		return arvados.Collection{PortableDataHash: ref.PDH(s.ans.text), ManifestText: s.ans.text}, s.ans.err
	}
	if s.ans.err != nil {
		return arvados.Collection{}, s.ans.err
	}
	return arvados.Collection{
		UUID:             "",
		PortableDataHash: ref.PDH(s.ans.text),
		ManifestText:     s.ans.text,
	}, nil
}

func c18newStub(id string, ans c18answer, abort chan struct{}) *c18stub {
	return &c18stub{id: id, ans: ans, release: make(chan struct{}), abort: abort,
		entered: make(chan struct{}), returned: make(chan struct{})}
}

func c18ctx() context.Context {
	logger := logrus.New()
	logger.Out = ioutil.Discard
	return ctxlog.Context(context.Background(), logger)
}

// c18bigShare: nominally one case in c18bigShare carries 1-3 stream lines of
// 50-280 KiB (fedgen.Inflate); measured 6.3 % (rapid's integer draws are not
// uniform, which is why two interior values are tested instead of "== 0").
const c18bigShare = 12

func c18genManifest(t *rapid.T) (*mgen.Manifest, []string, fedgen.BigInfo) {
	m := mgen.Gen(t, mgen.GenOpts{Signed: true, MaxStreams: 3, MaxBlocks: 4, MaxFiles: 4})
	labels := fedgen.Decorate(t, m, true)
	signAll := rapid.IntRange(0, 9).Draw(t, "signAll") < 3
	if signAll {
		fedgen.SignAll(t, m)
		labels = append(labels, "all-locators-signed")
	}
	var big fedgen.BigInfo
	if rapid.IntRange(0, 2*c18bigShare-1).Draw(t, "big")%c18bigShare == c18bigShare/2 {
		big = fedgen.Inflate(t, m, signAll)
		labels = append(labels, big.Labels()...)
	}
	return m, labels, big
}

// c18drawAnswer draws one backend's behaviour. honestText is the collection
// really stored under the true PDH; reqBase is hash+size of the requested id.
func c18drawAnswer(t *rapid.T, label string, honestText, otherText, reqBase string, allowHang bool, weightHonest int) c18answer {
	kinds := []string{c18Tamper, c18Tamper, c18Tamper, c18Different, c18NotFound, c18NotFound, c18ServerErr, c18Status, c18Status, c18Status}
	for i := 0; i < weightHonest; i++ {
		kinds = append(kinds, c18Honest)
	}
	if allowHang {
		kinds = append(kinds, c18Hang)
	}
	a := c18answer{kind: rapid.SampledFrom(kinds).Draw(t, label+"Kind")}
	switch a.kind {
	case c18Honest:
		a.text = honestText
	case c18Tamper:
		a.tamper = rapid.SampledFrom(fedgen.TamperKinds).Draw(t, label+"Tamper")
		a.text, a.detail = fedgen.Tamper(t, honestText, a.tamper)
		if a.detail == "" {
			a.kind, a.tamper = c18Different, ""
			a.text = otherText
		}
	case c18Different:
		a.text = otherText
	case c18NotFound:
		a.err = c18httpErr{404, "not found"}
	case c18Status:
		a.code = rapid.SampledFrom(c18oddStatuses).Draw(t, label+"Status")
		a.err = c18httpErr{a.code, "odd status"}
		a.carries = rapid.SampledFrom([]string{"honest", "honest", "tamper", "tamper", "different", "nothing"}).Draw(t, label+"Carries")
		switch a.carries {
		case "honest":
			a.text = honestText
		case "tamper":
			a.tamper = rapid.SampledFrom(fedgen.TamperKinds).Draw(t, label+"Tamper")
			a.text, a.detail = fedgen.Tamper(t, honestText, a.tamper)
			if a.detail == "" {
				a.carries, a.tamper, a.text = "different", "", otherText
			} else {
				a.carries = "tamper-" + a.tamper
			}
		case "different":
			a.text = otherText
		}
	case c18ServerErr:
		switch rapid.IntRange(0, 3).Draw(t, label+"Err") {
		case 0:
			a.err = c18httpErr{500, "internal"}
		case 1:
			a.err = c18httpErr{502, "bad gateway"}
		case 2:
			a.err = c18httpErr{503, "unavailable"}
		default:
			a.err = errors.New("connection refused (no status)")
		}
	}
	if a.hasText() {
		a.textValid = ref.PDH(a.text) == reqBase
		a.valid = a.textValid && a.is200()
	}
	return a
}

func c18status(err error) int {
	if he, ok := err.(interface{ HTTPStatus() int }); ok {
		return he.HTTPStatus()
	}
	return 0
}

func TestVerifC18CollectionGetByPDH(t *testing.T) {
	defer stats.Flush()
	rapid.Check(t, func(t *rapid.T) {
		m, decoLabels, big := c18genManifest(t)
		honest := m.Text()
		other := mgen.Gen(t, mgen.GenOpts{Signed: true, MaxStreams: 2, MaxBlocks: 3, MaxFiles: 3}).Text()
		truePDH := ref.PDH(honest)
		req, reqKind := fedgen.ReqID(t, truePDH, true)
		reqBase := fedgen.Base(req)
		if len(req) == 27 {
			t.Fatalf("VERIF-INFRA: generated request id %q has UUID length", req)
		}

		nrem := rapid.SampledFrom([]int{1, 2, 2, 3, 3, 4, 4}).Draw(t, "nremotes")
		ids := fedgen.ClusterIDs(t, nrem)
		abort := make(chan struct{})

		// local backend: mostly 404 (so that the federation is searched)
		var localAns c18answer
		if rapid.IntRange(0, 9).Draw(t, "localIs404") < 8 {
			localAns = c18answer{kind: c18NotFound, err: c18httpErr{404, "not found"}}
		} else {
			localAns = c18drawAnswer(t, "local", honest, other, reqBase, false, 3)
		}
		local := c18newStub("", localAns, abort)
		close(local.release) // the local backend is asked synchronously first

		// Round 3: about a third of the requests carry a select list; most of
		// those lists do not name manifest_text. The stub backends answer with
		// a manifest_text anyway (honest or not), as a remote is free to do.
		var sel []string
		selKind := "none"
		if sb := rapid.SliceOfN(rapid.Bool(), 4, 4).Draw(t, "selectBits"); sb[0] && (sb[1] || sb[2]) {
			k := 0
			for _, b := range rapid.SliceOfN(rapid.Bool(), 3, 3).Draw(t, "selectWhich") {
				k <<= 1
				if b {
					k |= 1
				}
			}
			sel = [][]string{
				{"uuid", "portable_data_hash"},
				{"uuid"},
				{"name", "owner_uuid"},
				{"portable_data_hash"},
				{"uuid", "portable_data_hash", "name", "modified_at"},
				{"manifest_text"},
				{"uuid", "manifest_text", "portable_data_hash"},
				{"unsigned_manifest_text"},
			}[k]
			selKind = "without-manifest_text"
			for _, f := range sel {
				if f == "manifest_text" {
					selKind = "with-manifest_text"
				}
			}
		}

		forwardedFor := ""
		if rapid.IntRange(0, 19).Draw(t, "forwarded") == 0 {
			forwardedFor = "zqqqq-"
		}

		remotes := map[string]backend{}
		var stubs []*c18stub
		for i := 1; i <= nrem; i++ {
			ans := c18drawAnswer(t, fmt.Sprintf("remote%d", i), honest, other, reqBase, true, 3)
			st := c18newStub(ids[i], ans, abort)
			stubs = append(stubs, st)
			remotes[ids[i]] = st
		}
		conn := &Conn{
			cluster: &arvados.Cluster{ClusterID: ids[0]},
			local:   local,
			remotes: remotes,
		}

		// release plan
		order := rapid.Permutation(stubs).Draw(t, "releaseOrder")
		mode := rapid.SampledFrom([]string{"sequenced", "sequenced", "sequenced", "burst", "prereleased"}).Draw(t, "releaseMode")
		settle := time.Duration(rapid.SampledFrom([]int{0, 20, 100, 300}).Draw(t, "settleMicros")) * time.Microsecond

		anyValidRemote := false
		anyHang := false
		for _, st := range stubs {
			if st.ans.valid {
				anyValidRemote = true
			}
			if st.ans.kind == c18Hang {
				anyHang = true
			}
		}
		localIs404 := localAns.err != nil && c18status(localAns.err) == 404
		remotesConsulted := localIs404 && forwardedFor == ""
		expectSuccess := remotesConsulted && anyValidRemote

		if mode == "prereleased" {
			for _, st := range stubs {
				close(st.release)
				st.released = true
			}
		}

		parent, cancelParent := context.WithCancel(c18ctx())
		defer cancelParent()
		type result struct {
			coll arvados.Collection
			err  error
		}
		done := make(chan result, 1)
		go func() {
			c, err := conn.CollectionGet(parent, arvados.GetOptions{UUID: req, ForwardedFor: forwardedFor, Select: append([]string(nil), sel...)})
			done <- result{c, err}
		}()

		var res result
		finished := false
		// waitFor waits for ch or for the call to finish; true if ch fired.
		infraTimeout := 60 * time.Second
		waitFor := func(ch <-chan struct{}, what string) bool {
			if finished {
				return false
			}
			select {
			case <-ch:
				return true
			case res = <-done:
				finished = true
				return false
			case <-time.After(infraTimeout):
				close(abort)
				t.Fatalf("VERIF-INFRA: timed out waiting for %s (req=%q mode=%s)", what, req, mode)
				return false
			}
		}
		allEntered := true
		if mode == "sequenced" {
			for _, st := range stubs {
				if !waitFor(st.entered, "remote "+st.id+" to be called") {
					allEntered = false
					break
				}
			}
		}
		var releasedOrder []string
		if mode != "prereleased" {
			for _, st := range order {
				if finished {
					break
				}
				close(st.release)
				st.released = true
				releasedOrder = append(releasedOrder, st.id+":"+st.ans.label())
				if mode == "sequenced" && st.ans.kind != c18Hang {
					if waitFor(st.returned, "remote "+st.id+" to return") {
						runtime.Gosched()
						if settle > 0 {
							time.Sleep(settle)
						}
					}
				}
			}
		}
		if !finished && !expectSuccess && remotesConsulted && anyHang {
			// Nothing can win and a hanging remote would keep the request open
			// for ever: behave like a client that gives up, after every other
			// answer has been delivered.
			for _, st := range stubs {
				if st.ans.kind != c18Hang {
					waitFor(st.returned, "remote "+st.id+" to return")
				}
			}
			cancelParent()
		}
		if !finished {
			select {
			case res = <-done:
				finished = true
			case <-time.After(infraTimeout):
				close(abort)
				t.Fatalf("VERIF-INFRA: CollectionGet did not return within %v (req=%q kind=%s expectSuccess=%v released=%v)", infraTimeout, req, reqKind, expectSuccess, releasedOrder)
			}
		}
		// cancellation of the remotes that had been called by the time the
		// request returned (checked before anything else touches the contexts)
		type ctxObs struct {
			id        string
			kind      string
			cancelled bool
		}
		// Only requests that are certainly still outstanding are looked at: a
		// hanging remote, or one whose answer the harness has not released.
		var obs []ctxObs
		for _, st := range stubs {
			if st.ans.kind != c18Hang && st.released {
				continue
			}
			st.mu.Lock()
			for _, cx := range st.ctxs {
				kind := st.ans.kind
				if kind != c18Hang {
					kind = "unreleased " + kind
				}
				obs = append(obs, ctxObs{st.id, kind, cx.Err() != nil})
			}
			st.mu.Unlock()
		}
		close(abort)

		describe := func() string {
			var sb strings.Builder
			fmt.Fprintf(&sb, "request %q (%s; true PDH %s) select=%q forwardedFor=%q mode=%s settle=%v\n", req, reqKind, truePDH, sel, forwardedFor, mode, settle)
			if big.Streams > 0 {
				fmt.Fprintf(&sb, "%s\n", big)
			}
			fmt.Fprintf(&sb, "honest text: %q\n", fedgen.Abbrev(honest))
			fmt.Fprintf(&sb, "local %s: %s carries=%q valid=%v text=%q err=%v\n", ids[0], localAns.label(), localAns.carries, localAns.valid, fedgen.Abbrev(localAns.text), localAns.err)
			for _, st := range stubs {
				fmt.Fprintf(&sb, "remote %s: %s (%s) carries=%q valid=%v text=%q err=%v\n", st.id, st.ans.label(), st.ans.detail, st.ans.carries, st.ans.valid, fedgen.Abbrev(st.ans.text), st.ans.err)
			}
			fmt.Fprintf(&sb, "release order: %v\n", releasedOrder)
			return sb.String()
		}

		labels := []string{"req:" + reqKind, "local:" + localAns.label(), fmt.Sprintf("remotes:%d", nrem), "mode:" + mode, "select:" + selKind}
		labels = append(labels, decoLabels...)
		winner := ""
		if res.err == nil && res.coll.ManifestText == "" && selKind == "without-manifest_text" {
			// no manifest is handed to the client, which did not ask for one:
			// nothing for the property to judge (never seen on the unchanged
			// tree, which verifies whatever manifest_text it received)
			labels = append(labels, "outcome:success-without-manifest", "select:"+selKind+"/no-manifest-relayed")
		} else if res.err == nil {
			got := res.coll.ManifestText
			// Who produced it? The local cluster's own answer is not "fetched
			// from a remote cluster": the property only wants it unchanged.
			var diffs []string
			if localAns.hasText() {
				if got == localAns.text {
					winner = "local"
				} else {
					diffs = append(diffs, "vs local: "+fedgen.DiffTokens(got, localAns.text))
				}
			}
			// (a) what is handed out from a remote hashes to the requested value
			if p := ref.PDH(got); p != reqBase && winner != "local" {
				t.Fatalf("C18 violated: CollectionGet(%q) succeeded but the returned manifest has reference PDH %s\nreturned: %q\n%s", req, p, fedgen.Abbrev(got), describe())
			}
			// (b) it is what one backend sent, with only +A -> +R<id>-
			// (a 200 answer is looked at before an odd-status answer carrying
			// the same text: without +A hints their rewrites are equal)
			byStatus := append([]*c18stub(nil), stubs...)
			sort.SliceStable(byStatus, func(i, j int) bool { return byStatus[i].ans.is200() && !byStatus[j].ans.is200() })
			if winner == "" {
				for _, st := range byStatus {
					if !st.ans.hasText() {
						continue
					}
					st.mu.Lock()
					called := len(st.ctxs) > 0
					st.mu.Unlock()
					if !called {
						continue
					}
					want := fedgen.RefRewrite(st.ans.text, st.id)
					if got == want {
						winner = st.id
						if !st.ans.textValid {
							t.Fatalf("C18 violated: the answer of remote %s (%s, %s) was relayed although it does not hash to the request\n%s", st.id, st.ans.label(), st.ans.detail, describe())
						}
						if st.ans.kind == c18Status {
							// not an honest answer, but what is handed out is
							// verified and correctly rewritten: outcome adopted
							labels = append(labels, "winner:remote-"+st.ans.statusClass())
						} else {
							labels = append(labels, "winner:remote-"+st.ans.label())
						}
						break
					}
					diffs = append(diffs, "vs remote "+st.id+": "+fedgen.DiffTokens(got, want))
				}
			}
			if winner == "" {
				t.Fatalf("C18 violated: returned manifest is not what any backend sent with only +A<sig>@<exp> -> +R<id>-<sig>@<exp>\nreturned: %q\n%s\n%s", fedgen.Abbrev(got), strings.Join(diffs, "\n"), describe())
			}
			if winner == "local" {
				labels = append(labels, "winner:local")
			}
			// hanging (or still waiting) remotes have been cancelled
			for _, o := range obs {
				if !o.cancelled {
					t.Fatalf("C18 violated: request returned a winner (%s) but the context given to remote %s (%s) was not cancelled\n%s", winner, o.id, o.kind, describe())
				}
				if o.kind == c18Hang {
					labels = append(labels, "hang-cancelled-after-winner")
				} else {
					labels = append(labels, "unreleased-cancelled-after-winner")
				}
			}
			labels = append(labels, "outcome:success")
			if selKind != "none" {
				if winner == "local" {
					labels = append(labels, "select:"+selKind+"/manifest-from-local")
				} else {
					labels = append(labels, "select:"+selKind+"/manifest-relayed-from-remote")
				}
			}
			if winner != "local" && strings.Contains(got, "+R"+winner+"-") {
				labels = append(labels, "relayed-with-rewritten-signatures")
			}
		} else {
			if strings.Contains(res.err.Error(), "VERIF-INFRA") {
				t.Fatalf("VERIF-INFRA: stub abort leaked into the result: %v", res.err)
			}
			if expectSuccess {
				t.Fatalf("C18 violated: local backend answered 404 and a remote holds the requested collection, but CollectionGet(%q) failed: %v\n%s", req, res.err, describe())
			}
			switch st := c18status(res.err); {
			case st == 404:
				labels = append(labels, "outcome:error-404")
			case st >= 500:
				labels = append(labels, "outcome:error-5xx")
			default:
				labels = append(labels, fmt.Sprintf("outcome:error-%d", st))
			}
		}

		// shape labels
		invalid200 := 0
		seenKinds := map[string]bool{}
		for _, st := range stubs {
			if st.ans.hasText() && !st.ans.textValid {
				invalid200++
			}
			l := "remote:" + st.ans.label()
			if st.ans.kind == c18Status {
				l = "remote:" + st.ans.statusClass()
				if k := fmt.Sprintf("remote-status:%d", st.ans.code); !seenKinds[k] {
					seenKinds[k] = true
					labels = append(labels, k)
				}
			}
			if st.ans.is200() {
				if st.ans.valid {
					l += "/valid"
				} else {
					l += "/invalid"
				}
			}
			if !seenKinds[l] {
				seenKinds[l] = true
				labels = append(labels, l)
			}
		}
		if remotesConsulted && selKind != "none" {
			if invalid200 > 0 {
				labels = append(labels, "select:"+selKind+"/remote-sends-invalid-manifest")
			}
			if anyValidRemote {
				labels = append(labels, "select:"+selKind+"/remote-sends-valid-manifest")
			}
			if res.err != nil {
				labels = append(labels, "select:"+selKind+"/error")
			}
		}
		if remotesConsulted {
			labels = append(labels, "remotes-consulted")
			if anyValidRemote && invalid200 > 0 {
				labels = append(labels, "valid-and-invalid-remotes-compete")
				// was a non-valid answer released before the first valid one?
				if mode == "sequenced" && allEntered {
					for _, st := range order {
						if st.ans.valid {
							break
						}
						if st.ans.kind != c18Hang {
							labels = append(labels, "bad-answer-released-before-valid")
							break
						}
					}
				}
			}
			if anyValidRemote && anyHang {
				labels = append(labels, "valid-with-hanging-remote")
			}
			if !anyValidRemote {
				labels = append(labels, "no-valid-remote")
			}
		}
		if localAns.hasText() && !localAns.textValid {
			invalid200++
		}
		nontrivial := invalid200 > 0 || (res.err == nil && winner != "local" && fedgen.CountSigned(honest) > 0)
		var kinds []string
		for _, st := range stubs {
			kinds = append(kinds, st.id+st.ans.label()+st.ans.carries+st.ans.detail)
		}
		for i := range labels {
			labels[i] = "fed:" + labels[i]
		}
		stats.Case(stats.FP(honest, req, sel, localAns.label(), kinds, releasedOrder, mode), nontrivial, labels...)
		for _, l := range []string{"fed:outcome:success", "fed:outcome:error-5xx", "fed:valid-and-invalid-remotes-compete"} {
			for _, have := range labels {
				if have == l && stats.WantSample(l) {
					var rs []string
					for _, st := range stubs {
						rs = append(rs, st.id+":"+st.ans.label()+":"+st.ans.carries+":"+st.ans.detail)
					}
					stats.Sample(l, map[string]interface{}{"req": req, "reqKind": reqKind, "honest": fedgen.Abbrev(honest), "local": localAns.label(), "remotes": rs, "order": releasedOrder, "mode": mode, "winner": winner, "returned": fedgen.Abbrev(res.coll.ManifestText), "err": fmt.Sprint(res.err)})
				}
			}
		}
	})
}

// By-UUID fetches and the rewrite function itself: the relayed text differs
// from what the remote sent only in +A -> +R<id>-.
func TestVerifC18RewriteOnly(t *testing.T) {
	defer stats.Flush()
	rapid.Check(t, func(t *rapid.T) {
		m, decoLabels, big := c18genManifest(t)
		text := m.Text()
		// some texts are tampered/ungrammatical on purpose: the relation is
		// about every locator token, whatever surrounds it
		shape := "grammatical"
		if rapid.IntRange(0, 4).Draw(t, "tamperText") == 0 {
			// (whitespace tamperings are left out here: they produce texts on
			// which the format no longer defines what a locator token is)
			k := rapid.SampledFrom([]string{"blockswap", "size", "filetoken", "streamname", "sigonly"}).Draw(t, "tamperKind")
			if tt, d := fedgen.Tamper(t, text, k); d != "" {
				text, shape = tt, "tampered-"+k
			}
		}
		ids := fedgen.ClusterIDs(t, 2)
		localID, remoteID, unknownID := ids[0], ids[1], ids[2]

		labels := append([]string{"rewrite", "shape:" + shape}, decoLabels...)
		// 1. the function
		want := fedgen.RefRewrite(text, remoteID)
		if got := rewriteManifest(text, remoteID); got != want {
			t.Fatalf("C18 violated: rewriteManifest changed something other than +A -> +R%s-: %s\n%s\nin:   %q\ngot:  %q\nwant: %q", remoteID, fedgen.DiffTokens(got, want), big, fedgen.Abbrev(text), fedgen.Abbrev(got), fedgen.Abbrev(want))
		}
		// 2. CollectionGet by UUID
		abort := make(chan struct{})
		defer close(abort)
		mk := func(id string) *c18stub {
			st := c18newStub(id, c18answer{kind: c18Honest, text: text}, abort)
			close(st.release)
			return st
		}
		local, remote := mk(""), mk(remoteID)
		conn := &Conn{cluster: &arvados.Cluster{ClusterID: localID}, local: local, remotes: map[string]backend{remoteID: remote}}
		tail := "-4zz18-" + rapid.StringMatching(`[0-9a-z]{15}`).Draw(t, "uuidTail")
		which := rapid.SampledFrom([]string{"remote", "remote", "local", "unknown"}).Draw(t, "uuidHome")
		var uuid, wantText string
		switch which {
		case "remote":
			uuid, wantText = remoteID+tail, want
		case "local":
			uuid, wantText = localID+tail, text
		default:
			uuid = unknownID + tail
		}
		c, err := conn.CollectionGet(c18ctx(), arvados.GetOptions{UUID: uuid})
		if err != nil {
			t.Fatalf("VERIF-INFRA: by-UUID CollectionGet(%q) failed with stub backends: %v", uuid, err)
		}
		nl, nr := len(local.ctxs), len(remote.ctxs)
		switch which {
		case "remote":
			if nr != 1 || nl != 0 {
				t.Fatalf("C18: by-UUID fetch of %q: calls local=%d remote=%d, want 0/1", uuid, nl, nr)
			}
			if c.ManifestText != wantText {
				t.Fatalf("C18 violated: by-UUID fetch from remote %s relayed a text that differs from what was sent in more than +A -> +R%s-: %s\nsent: %q\ngot:  %q\nwant: %q", remoteID, remoteID, fedgen.DiffTokens(c.ManifestText, wantText), fedgen.Abbrev(text), fedgen.Abbrev(c.ManifestText), fedgen.Abbrev(wantText))
			}
		case "local":
			if c.ManifestText != wantText {
				t.Fatalf("C18 violated: by-UUID fetch from the local cluster changed the manifest: %s\nsent: %q\ngot:  %q", fedgen.DiffTokens(c.ManifestText, wantText), fedgen.Abbrev(text), fedgen.Abbrev(c.ManifestText))
			}
		default:
			// unknown prefix: the property does not say who is asked; whatever
			// is returned must be the sent text or its rewrite for that prefix
			if c.ManifestText != text && c.ManifestText != fedgen.RefRewrite(text, unknownID) {
				t.Fatalf("C18 violated: by-UUID fetch with unknown prefix %q altered the manifest\nsent: %q\ngot:  %q", unknownID, fedgen.Abbrev(text), fedgen.Abbrev(c.ManifestText))
			}
		}
		labels = append(labels, "uuid-home:"+which)
		ns := fedgen.CountSigned(text)
		if ns > 0 {
			labels = append(labels, "has-signed-locators")
		}
		if strings.Contains(strings.Replace(want, "+R"+remoteID+"-", "", -1), "+A") {
			labels = append(labels, "+A-outside-locators-preserved")
		}
		for i := range labels {
			if labels[i] != "rewrite" {
				labels[i] = "rewrite:" + labels[i]
			}
		}
		stats.Case(stats.FP("rw", text, remoteID, which), ns > 0, labels...)
		if stats.WantSample("rewrite") {
			stats.Sample("rewrite", map[string]string{"in": fedgen.Abbrev(text), "remote": remoteID, "out": fedgen.Abbrev(want)})
		}
	})
}
