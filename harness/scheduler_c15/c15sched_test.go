package scheduler

// C15, scheduler level: bounded liveness of the lock/start path.
//
// "Every queued container with positive priority and a satisfiable instance
// type eventually becomes Complete or Cancelled": the first thing that has to
// happen is that the scheduler locks and starts it once a worker is idle. This
// test exercises the histories that the end-to-end unit cannot aim at: a
// container is put on hold (priority 0) while it is still Queued, is dropped
// from the queue cache by sync() (Forget), a lockContainer goroutine spawned by
// an earlier runQueue pass runs only now (delayed goroutine), and later the
// container gets a positive priority again.
//
// Drive: a real Scheduler over a small model that is both ContainerQueue (API
// database + dispatcher cache with the semantics of container.Queue: Update
// lists my Locked/Running containers, Queued ones with priority>0 and re-fetches
// what is cached; Forget only drops final or held-Queued entries; Lock/Unlock/
// Cancel answer like the API server and patch the cached entry) and WorkerPool
// (idle/booting workers per type, one process per started container). The
// harness calls runQueue(), sync(), Update() and, standing for a goroutine that
// was spawned by an earlier runQueue pass and scheduled late,
// sch.lockContainer(logger, uuid) directly, only for a uuid that the cache
// showed as Queued with priority>0 and without a process at some earlier moment
// (the scheduler loop may have run a pass at that moment).
//
// Oracle (nothing else is asserted): at the end API changes and injected
// failures stop, every needed type gets enough idle workers, and
// (Update; runQueue; sync) is repeated a bounded number of times. Every
// container that the database then shows Queued or Locked with priority>0 and
// that has no live process must receive a successful StartContainer.
//
// Waiting for the goroutines spawned by runQueue/sync uses the goroutine count;
// running into its (generous) bound is an infrastructure error, not a violation.

import (
	"context"
	"fmt"
	"io/ioutil"
	"runtime"
	"sort"
	"strings"
	"sync"
	"testing"
	"time"

	"git.arvados.org/arvados.git/lib/dispatchcloud/container"
	"git.arvados.org/arvados.git/lib/dispatchcloud/test"
	"git.arvados.org/arvados.git/lib/dispatchcloud/worker"
	"git.arvados.org/arvados.git/sdk/go/arvados"
	"git.arvados.org/arvados.git/sdk/go/ctxlog"
	"github.com/sirupsen/logrus"
	"pgregory.net/rapid"
	"verif.local/vcommon/stats"
)

const vc15FinalPasses = 12

type vc15Ctr struct {
	uuid  string
	state arvados.ContainerState
	prio  int64
	typ   int
}

type vc15Proc struct {
	exited time.Time // zero = live
	typ    int
}

type vc15World struct {
	mu    sync.Mutex
	types []arvados.InstanceType
	clock time.Time

	// API database
	db    map[string]*vc15Ctr
	order []string // creation order (deterministic iteration)

	// dispatcher cache (container.Queue)
	cache   map[string]container.QueueEnt
	updated time.Time

	// pool
	idle    []int
	booting []int
	procs   map[string]*vc15Proc

	// injected transient failures, consumed per container in call order
	lockFail   map[string][]bool
	unlockFail map[string][]bool
	startFail  []bool
	nStart     int
	noFail     bool // final phase

	// observations
	started     map[string]int  // successful StartContainer calls per uuid (whole case)
	startedFin  map[string]bool // ... during the final phase
	final       bool
	forgotHeld  map[string]bool // Forget() dropped a Queued priority-0 entry
	candidate   map[string]bool // cache showed Queued, priority>0, no process
	lockCalls   int
	hist        []string
	everCrashed bool
}

func (w *vc15World) now() time.Time {
	w.clock = w.clock.Add(time.Millisecond)
	return w.clock
}

func vc15Short(uuid string) string { return "c" + strings.TrimLeft(uuid[len(uuid)-3:], "0") }

func (w *vc15World) logf(format string, args ...interface{}) {
	w.hist = append(w.hist, fmt.Sprintf(format, args...))
}

// ---- WorkerPool ----

func (w *vc15World) Subscribe() <-chan struct{}  { return make(chan struct{}) }
func (w *vc15World) Unsubscribe(<-chan struct{}) {}
func (w *vc15World) AtQuota() bool               { return false }

func (w *vc15World) Running() map[string]time.Time {
	w.mu.Lock()
	defer w.mu.Unlock()
	r := map[string]time.Time{}
	for uuid, p := range w.procs {
		r[uuid] = p.exited
	}
	return r
}

func (w *vc15World) Unallocated() map[arvados.InstanceType]int {
	w.mu.Lock()
	defer w.mu.Unlock()
	r := map[arvados.InstanceType]int{}
	for i, it := range w.types {
		if n := w.idle[i] + w.booting[i]; n > 0 {
			r[it] = n
		}
	}
	return r
}

func (w *vc15World) CountWorkers() map[worker.State]int {
	w.mu.Lock()
	defer w.mu.Unlock()
	r := map[worker.State]int{}
	for i := range w.types {
		r[worker.StateIdle] += w.idle[i]
		r[worker.StateBooting] += w.booting[i]
	}
	for _, p := range w.procs {
		if p.exited.IsZero() {
			r[worker.StateRunning]++
		}
	}
	return r
}

func (w *vc15World) typeIndex(it arvados.InstanceType) int {
	for i, x := range w.types {
		if x.Name == it.Name {
			return i
		}
	}
	return -1
}

func (w *vc15World) Create(it arvados.InstanceType) bool {
	w.mu.Lock()
	defer w.mu.Unlock()
	i := w.typeIndex(it)
	if i < 0 {
		return false
	}
	if w.idle[i]+w.booting[i] >= 12 {
		// cloud ops throttled for now
		w.logf("  pool.Create(%s)=false", it.Name)
		return false
	}
	w.booting[i]++
	w.logf("  pool.Create(%s)=true", it.Name)
	return true
}

func (w *vc15World) Shutdown(it arvados.InstanceType) bool {
	w.mu.Lock()
	defer w.mu.Unlock()
	i := w.typeIndex(it)
	if i < 0 {
		return false
	}
	if w.booting[i] > 0 {
		w.booting[i]--
	} else if w.idle[i] > 0 {
		w.idle[i]--
	} else {
		return false
	}
	w.logf("  pool.Shutdown(%s)", it.Name)
	return true
}

func (w *vc15World) StartContainer(it arvados.InstanceType, ctr arvados.Container) bool {
	w.mu.Lock()
	defer w.mu.Unlock()
	i := w.typeIndex(it)
	fail := false
	if !w.noFail && w.nStart < len(w.startFail) {
		fail = w.startFail[w.nStart]
	}
	w.nStart++
	_, dup := w.procs[ctr.UUID]
	ok := i >= 0 && w.idle[i] > 0 && !fail && !dup
	if ok {
		w.idle[i]--
		w.procs[ctr.UUID] = &vc15Proc{typ: i}
		w.started[ctr.UUID]++
		if w.final {
			w.startedFin[ctr.UUID] = true
		}
	}
	w.logf("  pool.StartContainer(%s,%s)=%v", it.Name, vc15Short(ctr.UUID), ok)
	return ok
}

// caller holds w.mu
func (w *vc15World) procEnds(uuid string) {
	p := w.procs[uuid]
	if p != nil && p.exited.IsZero() {
		p.exited = w.now()
		w.idle[p.typ]++
	}
}

func (w *vc15World) KillContainer(uuid, reason string) bool {
	w.mu.Lock()
	defer w.mu.Unlock()
	p := w.procs[uuid]
	if p == nil || !p.exited.IsZero() {
		return false
	}
	w.procEnds(uuid)
	w.logf("  pool.KillContainer(%s,%q)=true", vc15Short(uuid), reason)
	return true
}

func (w *vc15World) ForgetContainer(uuid string) {
	w.mu.Lock()
	defer w.mu.Unlock()
	if p := w.procs[uuid]; p != nil && !p.exited.IsZero() {
		delete(w.procs, uuid)
		w.logf("  pool.ForgetContainer(%s)", vc15Short(uuid))
	}
}

// ---- ContainerQueue ----

func (w *vc15World) Entries() (map[string]container.QueueEnt, time.Time) {
	w.mu.Lock()
	defer w.mu.Unlock()
	r := map[string]container.QueueEnt{}
	for k, v := range w.cache {
		r[k] = v
	}
	return r, w.updated
}

func (w *vc15World) Get(uuid string) (arvados.Container, bool) {
	w.mu.Lock()
	defer w.mu.Unlock()
	ent, ok := w.cache[uuid]
	if !ok {
		return arvados.Container{}, false
	}
	return ent.Container, true
}

func (w *vc15World) Forget(uuid string) {
	w.mu.Lock()
	defer w.mu.Unlock()
	ent, ok := w.cache[uuid]
	if !ok {
		return
	}
	c := ent.Container
	held := c.State == arvados.ContainerStateQueued && c.Priority == 0
	if c.State == arvados.ContainerStateComplete || c.State == arvados.ContainerStateCancelled || held {
		delete(w.cache, uuid)
		if held {
			w.forgotHeld[uuid] = true
		}
		w.logf("  queue.Forget(%s) [%s prio=%d]", vc15Short(uuid), c.State, c.Priority)
	}
}

// caller holds w.mu
func (w *vc15World) patchCache(c *vc15Ctr) {
	if ent, ok := w.cache[c.uuid]; ok {
		ent.Container.State, ent.Container.Priority = c.state, c.prio
		w.cache[c.uuid] = ent
	}
}

func vc15Next(fails map[string][]bool, uuid string) bool {
	l := fails[uuid]
	if len(l) == 0 {
		return false
	}
	fails[uuid] = l[1:]
	return l[0]
}

func (w *vc15World) Lock(uuid string) error {
	w.mu.Lock()
	defer w.mu.Unlock()
	w.lockCalls++
	c := w.db[uuid]
	switch {
	case c == nil:
		return fmt.Errorf("lock %s: not found", uuid)
	case !w.noFail && vc15Next(w.lockFail, uuid):
		w.logf("  queue.Lock(%s)=error (injected)", vc15Short(uuid))
		return fmt.Errorf("lock %s: service unavailable", uuid)
	case c.state != arvados.ContainerStateQueued:
		w.logf("  queue.Lock(%s)=error (state %s)", vc15Short(uuid), c.state)
		return fmt.Errorf("lock %s: cannot lock when %s", uuid, c.state)
	case c.prio <= 0:
		w.logf("  queue.Lock(%s)=error (priority 0)", vc15Short(uuid))
		return fmt.Errorf("lock %s: cannot lock when priority<=0", uuid)
	}
	c.state = arvados.ContainerStateLocked
	w.patchCache(c)
	w.logf("  queue.Lock(%s)=ok", vc15Short(uuid))
	return nil
}

func (w *vc15World) Unlock(uuid string) error {
	w.mu.Lock()
	defer w.mu.Unlock()
	c := w.db[uuid]
	switch {
	case c == nil:
		return fmt.Errorf("unlock %s: not found", uuid)
	case !w.noFail && vc15Next(w.unlockFail, uuid):
		w.logf("  queue.Unlock(%s)=error (injected)", vc15Short(uuid))
		return fmt.Errorf("unlock %s: service unavailable", uuid)
	case c.state != arvados.ContainerStateLocked:
		w.logf("  queue.Unlock(%s)=error (state %s)", vc15Short(uuid), c.state)
		return fmt.Errorf("unlock %s: cannot unlock when %s", uuid, c.state)
	}
	c.state = arvados.ContainerStateQueued
	w.patchCache(c)
	w.logf("  queue.Unlock(%s)=ok", vc15Short(uuid))
	return nil
}

func (w *vc15World) Cancel(uuid string) error {
	w.mu.Lock()
	defer w.mu.Unlock()
	c := w.db[uuid]
	if c == nil {
		return fmt.Errorf("cancel %s: not found", uuid)
	}
	if c.state == arvados.ContainerStateComplete || c.state == arvados.ContainerStateCancelled {
		w.logf("  queue.Cancel(%s)=error (state %s)", vc15Short(uuid), c.state)
		return fmt.Errorf("cancel %s: already %s", uuid, c.state)
	}
	c.state = arvados.ContainerStateCancelled
	w.patchCache(c)
	w.logf("  queue.Cancel(%s)=ok", vc15Short(uuid))
	return nil
}

// Update has the semantics of container.Queue.Update (the list requests and the
// merge happen atomically here; races inside Update are the subject of the
// container_c14 harness).
func (w *vc15World) Update() error {
	w.mu.Lock()
	defer w.mu.Unlock()
	started := w.now()
	next := map[string]container.QueueEnt{}
	for _, uuid := range w.order {
		c := w.db[uuid]
		old, cached := w.cache[uuid]
		mine := c.state == arvados.ContainerStateLocked || c.state == arvados.ContainerStateRunning
		avail := c.state == arvados.ContainerStateQueued && c.prio > 0
		refetch := cached && old.Container.State != arvados.ContainerStateCancelled && old.Container.State != arvados.ContainerStateComplete
		if !mine && !avail && !refetch {
			continue
		}
		next[uuid] = container.QueueEnt{
			Container:    arvados.Container{UUID: uuid, State: c.state, Priority: c.prio},
			InstanceType: w.types[c.typ],
		}
	}
	w.cache = next
	w.updated = started
	w.noteCandidates()
	return nil
}

// caller holds w.mu
func (w *vc15World) noteCandidates() {
	for uuid, ent := range w.cache {
		if ent.Container.State == arvados.ContainerStateQueued && ent.Container.Priority > 0 && w.procs[uuid] == nil {
			w.candidate[uuid] = true
		}
	}
}

func (w *vc15World) dump() string {
	var b strings.Builder
	b.WriteString("database:")
	for _, uuid := range w.order {
		c := w.db[uuid]
		fmt.Fprintf(&b, " %s{%s prio=%d %s", vc15Short(uuid), c.state, c.prio, w.types[c.typ].Name)
		if ent, ok := w.cache[uuid]; ok {
			fmt.Fprintf(&b, " cache=%s/%d", ent.Container.State, ent.Container.Priority)
		} else {
			b.WriteString(" not-cached")
		}
		if p := w.procs[uuid]; p != nil {
			if p.exited.IsZero() {
				b.WriteString(" proc=live")
			} else {
				b.WriteString(" proc=exited")
			}
		}
		b.WriteString("}")
	}
	fmt.Fprintf(&b, "\npool: idle=%v booting=%v\nhistory:\n", w.idle, w.booting)
	b.WriteString(strings.Join(w.hist, "\n"))
	return b.String()
}

var vc15Logger = func() logrus.FieldLogger {
	l := logrus.New()
	l.Out = ioutil.Discard
	l.Level = logrus.WarnLevel
	return l
}()

// ---- machine ----

type vc15Machine struct {
	w    *vc15World
	sch  *Scheduler
	base int
	fp   []string

	nLockDirect          int
	nLockDirectForgotten int
	nLockDirectHeld      int
	nHold, nRelease      int
	nHoldQueued          int
}

func vc15Fair(t *rapid.T, label string, bits int) int {
	v := 0
	for _, b := range rapid.SliceOfN(rapid.Bool(), bits, bits).Draw(t, label) {
		v <<= 1
		if b {
			v |= 1
		}
	}
	return v
}

func vc15Pct(t *rapid.T, label string, pct int) bool {
	return vc15Fair(t, label, 10)%100 < pct
}

func vc15Bools(t *rapid.T, label string, n, pct int) []bool {
	r := make([]bool, n)
	for i := range r {
		r[i] = vc15Pct(t, label, pct)
	}
	return r
}

func (m *vc15Machine) settle(t *rapid.T) {
	deadline := time.Now().Add(120 * time.Second)
	for i := 0; runtime.NumGoroutine() > m.base; i++ {
		if i < 200 {
			runtime.Gosched()
		} else {
			time.Sleep(50 * time.Microsecond)
		}
		if i%1000 == 999 && time.Now().After(deadline) {
			m.w.mu.Lock()
			d := m.w.dump()
			m.w.mu.Unlock()
			t.Fatalf("VERIF-INFRA: goroutines spawned by the scheduler did not finish (%d > %d) - inconclusive\n%s", runtime.NumGoroutine(), m.base, d)
		}
	}
}

func (m *vc15Machine) event(format string, args ...interface{}) {
	s := fmt.Sprintf(format, args...)
	m.fp = append(m.fp, s)
	m.w.mu.Lock()
	m.w.logf("%s", s)
	m.w.mu.Unlock()
}

// pick returns one of the containers that satisfy pred (creation order, fair
// choice), or nil.
func (m *vc15Machine) pick(t *rapid.T, label string, pred func(*vc15Ctr) bool) *vc15Ctr {
	m.w.mu.Lock()
	var c []*vc15Ctr
	for _, uuid := range m.w.order {
		if x := m.w.db[uuid]; pred(x) {
			c = append(c, x)
		}
	}
	m.w.mu.Unlock()
	if len(c) == 0 {
		return nil
	}
	return c[vc15Fair(t, label, 8)%len(c)]
}

func vc15Waiting(c *vc15Ctr) bool {
	return c.state == arvados.ContainerStateQueued || c.state == arvados.ContainerStateLocked
}

func (m *vc15Machine) opUpdate(t *rapid.T) {
	m.event("Update()")
	m.w.Update()
}

func (m *vc15Machine) opRunQueue(t *rapid.T) {
	m.event("runQueue()")
	m.w.mu.Lock()
	m.w.noteCandidates()
	m.w.mu.Unlock()
	m.sch.runQueue()
	m.settle(t)
}

func (m *vc15Machine) opSync(t *rapid.T) {
	m.event("sync()")
	m.sch.sync()
	m.settle(t)
}

func (m *vc15Machine) opHold(t *rapid.T, c *vc15Ctr) {
	if c == nil {
		return
	}
	m.w.mu.Lock()
	m.nHold++
	if c.state == arvados.ContainerStateQueued {
		m.nHoldQueued++
	}
	c.prio = 0
	m.w.mu.Unlock()
	m.event("api: %s priority=0 (hold)", vc15Short(c.uuid))
}

func (m *vc15Machine) opRelease(t *rapid.T, c *vc15Ctr) {
	if c == nil {
		return
	}
	p := int64(1 + vc15Fair(t, "newPrio", 3))
	m.w.mu.Lock()
	if c.prio == 0 {
		m.nRelease++
	}
	c.prio = p
	m.w.mu.Unlock()
	m.event("api: %s priority=%d", vc15Short(c.uuid), p)
}

// opLockDirect stands for a lockContainer goroutine that a runQueue pass spawned
// earlier and that is scheduled only now.
func (m *vc15Machine) opLockDirect(t *rapid.T, c *vc15Ctr) {
	if c == nil {
		return
	}
	m.w.mu.Lock()
	ent, cached := m.w.cache[c.uuid]
	m.nLockDirect++
	how := "cached " + string(ent.Container.State)
	if !cached {
		m.nLockDirectForgotten++
		how = "not in the queue cache"
	} else if ent.Container.State == arvados.ContainerStateQueued && ent.Container.Priority == 0 {
		m.nLockDirectHeld++
		how = "cached on hold"
	}
	m.w.mu.Unlock()
	m.event("delayed goroutine: lockContainer(%s) [%s]", vc15Short(c.uuid), how)
	m.sch.lockContainer(vc15Logger, c.uuid)
	m.settle(t)
}

func (m *vc15Machine) isCandidate(c *vc15Ctr) bool { return m.w.candidate[c.uuid] }

func (m *vc15Machine) opWorker(t *rapid.T) {
	i := vc15Fair(t, "workerType", 4) % len(m.w.types)
	m.w.mu.Lock()
	what := ""
	if m.w.booting[i] > 0 {
		m.w.booting[i]--
		m.w.idle[i]++
		what = "booted"
	} else if m.w.idle[i] < 4 {
		m.w.idle[i]++
		what = "appeared idle"
	}
	m.w.mu.Unlock()
	if what != "" {
		m.event("pool: a %s worker %s", m.w.types[i].Name, what)
	}
}

func (m *vc15Machine) opProc(t *rapid.T) {
	c := m.pick(t, "procCtr", func(c *vc15Ctr) bool {
		p := m.w.procs[c.uuid]
		return p != nil && p.exited.IsZero()
	})
	if c == nil {
		return
	}
	switch k := vc15Fair(t, "procEvent", 4) % 4; {
	case k == 0 && c.state == arvados.ContainerStateLocked:
		m.w.mu.Lock()
		c.state = arvados.ContainerStateRunning
		m.w.mu.Unlock()
		m.event("crunch-run %s: state=Running", vc15Short(c.uuid))
	case k == 1:
		m.w.mu.Lock()
		if c.state == arvados.ContainerStateLocked || c.state == arvados.ContainerStateRunning {
			c.state = arvados.ContainerStateComplete
			if vc15Fair(t, "completeOrCancel", 1) == 1 {
				c.state = arvados.ContainerStateCancelled
			}
		}
		m.w.procEnds(c.uuid)
		m.w.mu.Unlock()
		m.event("crunch-run %s: finalized (%s) and exited", vc15Short(c.uuid), c.state)
	default:
		m.w.mu.Lock()
		m.w.procEnds(c.uuid)
		m.w.everCrashed = true
		m.w.mu.Unlock()
		m.event("crunch-run %s: exited without finalizing (state %s)", vc15Short(c.uuid), c.state)
	}
}

func (m *vc15Machine) opCancel(t *rapid.T) {
	c := m.pick(t, "cancelCtr", func(c *vc15Ctr) bool { return vc15Waiting(c) || c.state == arvados.ContainerStateRunning })
	if c == nil {
		return
	}
	m.w.mu.Lock()
	c.state = arvados.ContainerStateCancelled
	m.w.mu.Unlock()
	m.event("api: %s cancelled", vc15Short(c.uuid))
}

func (m *vc15Machine) opNew(t *rapid.T) {
	m.w.mu.Lock()
	n := len(m.w.order)
	m.w.mu.Unlock()
	if n >= 6 {
		return
	}
	c := &vc15Ctr{uuid: test.ContainerUUID(n + 1), state: arvados.ContainerStateQueued}
	c.typ = vc15Fair(t, "newType", 4) % len(m.w.types)
	if !vc15Pct(t, "newHeld", 20) {
		c.prio = int64(1 + vc15Fair(t, "newPrio", 3))
	}
	m.w.mu.Lock()
	m.w.db[c.uuid] = c
	m.w.order = append(m.w.order, c.uuid)
	m.w.mu.Unlock()
	m.event("api: new container %s Queued priority=%d %s", vc15Short(c.uuid), c.prio, m.w.types[c.typ].Name)
}

func (m *vc15Machine) randomOp(t *rapid.T) {
	switch k := vc15Fair(t, "op", 7) % 20; {
	case k < 3:
		m.opUpdate(t)
	case k < 6:
		m.opRunQueue(t)
	case k < 9:
		m.opSync(t)
	case k < 11:
		// aim at containers that are still waiting to be locked
		c := m.pick(t, "holdQueued", func(c *vc15Ctr) bool { return c.state == arvados.ContainerStateQueued && c.prio > 0 })
		if c == nil || vc15Pct(t, "holdAny", 25) {
			c = m.pick(t, "holdCtr", func(c *vc15Ctr) bool { return vc15Waiting(c) && c.prio > 0 })
		}
		m.opHold(t, c)
	case k < 13:
		c := m.pick(t, "releaseCtr", func(c *vc15Ctr) bool { return vc15Waiting(c) && c.prio == 0 })
		if c == nil || vc15Pct(t, "reprioritize", 15) {
			c = m.pick(t, "prioCtr", func(c *vc15Ctr) bool { return vc15Waiting(c) })
		}
		m.opRelease(t, c)
	case k < 15:
		m.opLockDirect(t, m.pick(t, "lockDirectCtr", m.isCandidate))
	case k < 17:
		m.opWorker(t)
	case k < 18:
		m.opProc(t)
	case k < 19:
		if vc15Pct(t, "cancel", 40) {
			m.opCancel(t)
		} else {
			m.opProc(t)
		}
	default:
		m.opNew(t)
	}
}

// aimed plays the history named in the gap description for one container, with
// random operations in between: Queued and visible -> (a runQueue pass may have
// spawned a lock goroutine) -> hold -> Update -> sync drops it -> the delayed
// goroutine runs -> priority>0 again.
func (m *vc15Machine) aimed(t *rapid.T) {
	x := m.pick(t, "aimedCtr", func(c *vc15Ctr) bool { return c.state == arvados.ContainerStateQueued })
	if x == nil {
		return
	}
	between := func() {
		for vc15Pct(t, "between", 25) {
			m.randomOp(t)
		}
	}
	if x.prio == 0 {
		m.opRelease(t, x)
	}
	m.opUpdate(t)
	between()
	variant := vc15Fair(t, "aimedVariant", 4) % 4
	if variant == 1 {
		// a real pass: the Lock call itself may fail (injected), or succeed
		m.opRunQueue(t)
		between()
	}
	m.opHold(t, x)
	between()
	if variant == 2 {
		// the delayed goroutine meets the container on hold (API refuses)
		if m.isCandidate(x) {
			m.opLockDirect(t, x)
		}
	}
	m.opUpdate(t)
	between()
	m.opSync(t)
	if variant == 3 {
		m.opUpdate(t)
		m.opSync(t)
	}
	between()
	if m.isCandidate(x) {
		m.opLockDirect(t, x)
		if vc15Pct(t, "twice", 30) {
			m.opLockDirect(t, x)
		}
	}
	between()
	m.opRelease(t, x)
	between()
}

func TestVerifC15SchedLiveness(t *testing.T) {
	defer stats.Flush()
	rapid.Check(t, func(t *rapid.T) {
		nTypes := 1 + vc15Fair(t, "nTypes", 2)%2
		w := &vc15World{
			clock: time.Unix(2000000000, 0),
			db:    map[string]*vc15Ctr{}, cache: map[string]container.QueueEnt{},
			idle: make([]int, nTypes), booting: make([]int, nTypes), procs: map[string]*vc15Proc{},
			lockFail: map[string][]bool{}, unlockFail: map[string][]bool{},
			started: map[string]int{}, startedFin: map[string]bool{}, forgotHeld: map[string]bool{}, candidate: map[string]bool{},
		}
		for i := 0; i < nTypes; i++ {
			w.types = append(w.types, test.InstanceType(i+1))
			w.idle[i] = vc15Fair(t, "idle", 3) % 3
		}
		w.updated = w.now()
		n := 1 + vc15Fair(t, "nContainers", 4)%4
		failPct := []int{0, 0, 15, 40}[vc15Fair(t, "failPct", 2)]
		for i := 0; i < 6; i++ {
			uuid := test.ContainerUUID(i + 1)
			w.lockFail[uuid] = vc15Bools(t, "lockFail", 4, failPct)
			w.unlockFail[uuid] = vc15Bools(t, "unlockFail", 3, failPct/2)
		}
		w.startFail = vc15Bools(t, "startFail", 6, failPct/2)
		for i := 0; i < n; i++ {
			c := &vc15Ctr{uuid: test.ContainerUUID(i + 1), state: arvados.ContainerStateQueued}
			c.typ = vc15Fair(t, "type", 4) % nTypes
			if !vc15Pct(t, "held", 15) {
				c.prio = int64(1 + vc15Fair(t, "prio", 3))
			}
			if vc15Pct(t, "lockedByPrevious", 10) && c.prio > 0 {
				c.state = arvados.ContainerStateLocked
			}
			w.db[c.uuid] = c
			w.order = append(w.order, c.uuid)
			w.logf("initial: %s %s priority=%d %s", vc15Short(c.uuid), c.state, c.prio, w.types[c.typ].Name)
		}
		w.logf("initial: idle=%v injected failures %d%%", w.idle, failPct)

		ctx := ctxlog.Context(context.Background(), vc15Logger)
		m := &vc15Machine{w: w}
		m.sch = New(ctx, w, w, nil, time.Hour, time.Hour)
		defer m.sch.wakeup.Stop()
		m.base = runtime.NumGoroutine()

		isAimed := vc15Fair(t, "aimedBits", 10)%10 < 4
		steps := 4 + vc15Fair(t, "steps", 5)
		pre := 0
		if isAimed {
			pre = vc15Fair(t, "pre", 3) % 5
			steps = vc15Fair(t, "post", 4) % 10
		}
		for i := 0; i < pre; i++ {
			m.randomOp(t)
		}
		if isAimed {
			m.aimed(t)
		}
		for i := 0; i < steps; i++ {
			m.randomOp(t)
		}

		// ---- final phase: the environment calms down ----
		w.mu.Lock()
		w.final, w.noFail = true, true
		var eligible []string
		heldReleased := 0
		need := make([]int, nTypes)
		for _, uuid := range w.order {
			c := w.db[uuid]
			p := w.procs[uuid]
			if vc15Waiting(c) && c.prio > 0 && (p == nil || !p.exited.IsZero()) {
				eligible = append(eligible, uuid)
				need[c.typ]++
				if w.forgotHeld[uuid] {
					heldReleased++
				}
			}
		}
		for i := range w.types {
			w.idle[i] += w.booting[i]
			w.booting[i] = 0
			if w.idle[i] < need[i]+1 {
				w.idle[i] = need[i] + 1
			}
		}
		sort.Strings(eligible)
		w.logf("final phase: must start %d container(s); idle=%v", len(eligible), w.idle)
		w.mu.Unlock()

		passes := 0
		missing := func() []string {
			w.mu.Lock()
			defer w.mu.Unlock()
			var r []string
			for _, uuid := range eligible {
				if !w.startedFin[uuid] {
					r = append(r, vc15Short(uuid))
				}
			}
			return r
		}
		for len(missing()) > 0 && passes < vc15FinalPasses {
			passes++
			m.opUpdate(t)
			m.opRunQueue(t)
			m.opSync(t)
		}
		if left := missing(); len(left) > 0 {
			w.mu.Lock()
			d := w.dump()
			w.mu.Unlock()
			t.Fatalf("not started after %d passes of (Update; runQueue; sync) with idle workers of every type and no further API changes or failures: %v\n%s",
				passes, left, d)
		}

		labels := []string{fmt.Sprintf("final-passes:%d", passes), fmt.Sprintf("must-start:%d", vc15Cap(len(eligible), 4))}
		if isAimed {
			labels = append(labels, "aimed")
		}
		if m.nHoldQueued > 0 {
			labels = append(labels, "hold-while-Queued")
		}
		if m.nRelease > 0 {
			labels = append(labels, "hold-then-released")
		}
		if len(w.forgotHeld) > 0 {
			labels = append(labels, "held-entry-forgotten-by-sync")
		}
		if heldReleased > 0 {
			labels = append(labels, "started-after-hold+forget+release")
		}
		if m.nLockDirect > 0 {
			labels = append(labels, "delayed-lockContainer")
		}
		if m.nLockDirectForgotten > 0 {
			labels = append(labels, "delayed-lockContainer-on-forgotten")
		}
		if m.nLockDirectHeld > 0 {
			labels = append(labels, "delayed-lockContainer-on-held")
		}
		if w.everCrashed {
			labels = append(labels, "crunch-run-crashed")
		}
		if failPct > 0 {
			labels = append(labels, "injected-api-failures")
		}
		nontrivial := len(eligible) > 0 && (heldReleased > 0 || m.nLockDirectForgotten > 0 || m.nLockDirectHeld > 0 || w.everCrashed)
		stats.Case(stats.FP(strings.Join(m.fp, ";")+"|"+strings.Join(w.hist[:n+1], ";")), nontrivial, labels...)
		if heldReleased > 0 && m.nLockDirectForgotten > 0 && stats.WantSample("hold-forget-delayed-lock-release") {
			stats.Sample("hold-forget-delayed-lock-release", map[string]interface{}{"history": w.hist})
		}
	})
}

func vc15Cap(n, max int) int {
	if n > max {
		return max
	}
	return n
}
