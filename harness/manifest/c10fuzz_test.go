package manifest

import (
	"fmt"
	"strings"
	"testing"

	"verif.local/vcommon/mgen"
)

// Native fuzz target (thorough tier only) for the manifest package: no panic
// in the synchronous internals; if the reference accepts the text, every
// stream parses and every path maps to the reference segments.
func FuzzVerifC10Manifest(f *testing.F) {
	for _, s := range c10FuzzSeeds {
		f.Add(s)
	}
	f.Fuzz(func(t *testing.T, txt string) {
		UnescapeName(txt)
		var streams []ManifestStream
		anyErr := false
		for _, line := range strings.Split(txt, "\n") {
			if line == "" {
				continue
			}
			ms := parseManifestStream(line)
			if ms.Err != nil {
				anyErr = true
				continue
			}
			streams = append(streams, ms)
			for _, fs := range ms.FileStreamSegments {
				ch := make(chan *FileSegment, 1<<16)
				ms.sendFileSegmentIterByName(ms.StreamName+"/"+fs.Name, ch)
			}
		}
		refp, rerr := mgen.Interpret(txt, mgen.Options{})
		if rerr != nil {
			return
		}
		for _, st := range refp.Streams {
			if len(st.Locators) > 60000 {
				return
			}
			for _, sz := range st.Sizes {
				if sz > 1<<31-1 {
					return
				}
			}
		}
		if anyErr {
			t.Fatalf("valid manifest has a stream the manifest package rejects: %q", txt)
		}
		for _, p := range refp.Paths {
			if strings.Contains(p, "//") {
				return
			}
			var got []c10seg
			for _, ms := range streams {
				if !strings.HasPrefix(p, ms.StreamName+"/") {
					continue
				}
				ch := make(chan *FileSegment, 1<<16)
				ms.sendFileSegmentIterByName(p, ch)
				close(ch)
				for s := range ch {
					got = append(got, c10seg{s.Locator, int64(s.Offset), int64(s.Len)})
				}
			}
			if g, w := c10norm(got), c10ref(refp.Segs[p]); fmt.Sprint(g) != fmt.Sprint(w) {
				t.Fatalf("path %q: manifest package %v, reference %v\n%q", p, g, w, txt)
			}
		}
	})
}

var c10FuzzSeeds = []string{
	"",
	". d41d8cd98f00b204e9800998ecf8427e+0 0:0:a\n",
	". 930625b054ce894ac40596c3f5a0d947+33 0:0:a 0:0:b 0:33:output.txt\n./c d41d8cd98f00b204e9800998ecf8427e+0 0:0:d\n",
	". d41d8cd98f00b204e9800998ecf8427e+0 d41d8cd98f00b204e9800998ecf8427e+0 acbd18db4cc2f85cedef654fccc4a4d8+3 0:1:a 1:0:a 1:2:a\\040b 3:0:c/d\n",
	"./a\\040b acbd18db4cc2f85cedef654fccc4a4d8+3+Afoo@bar+Zx 37b51d194a7513e45b56f6524f2d51f2+3 2:3:x\\\\101 0:6:y\\134z\n",
	". acbd18db4cc2f85cedef654fccc4a4d8+3 0:4:a\n",
	". acbd18db4cc2f85cedef654fccc4a4d8+3 99999999999999999999:1:a\n",
	". acbd18db4cc2f85cedef654fccc4a4d8 0:0:a\n",
	". 0:0:a\n",
	". acbd18db4cc2f85cedef654fccc4a4d8+3\n",
	"x acbd18db4cc2f85cedef654fccc4a4d8+3 0:3:a\n",
	". acbd18db4cc2f85cedef654fccc4a4d8+3 18446744073709551615:1:a\n",
	". acbd18db4cc2f85cedef654fccc4a4d8+3 18446744073709551615:18446744073709551615:a\n",
}
