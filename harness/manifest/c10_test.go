package manifest

// C10 (sdk/go/manifest side): segments, Extract/normalize and no-panic,
// against the reference interpreter in vcommon/mgen.

import (
	"bytes"
	"fmt"
	"sort"
	"strings"
	"testing"
	"time"

	"pgregory.net/rapid"
	"verif.local/vcommon/mgen"
	"verif.local/vcommon/stats"
)

type c10seg struct {
	Loc      string
	Off, Len int64
}

func c10norm(in []c10seg) []c10seg {
	var out []c10seg
	for _, s := range in {
		if s.Len == 0 {
			continue
		}
		if n := len(out); n > 0 && out[n-1].Loc == s.Loc && out[n-1].Off+out[n-1].Len == s.Off {
			out[n-1].Len += s.Len
			continue
		}
		out = append(out, s)
	}
	return out
}

func c10ref(segs []mgen.Seg) []c10seg {
	var out []c10seg
	for _, s := range segs {
		out = append(out, c10seg{s.Loc, s.Off, s.Len})
	}
	return c10norm(out)
}

// c10syncSegments runs the synchronous internals for one path of one stream
// line under recover, so that a panic is reported instead of killing the
// process on an internal goroutine.
func c10syncSegments(line, path string) (segs []c10seg, perr error, panicked interface{}) {
	defer func() {
		if r := recover(); r != nil {
			panicked = r
		}
	}()
	ms := parseManifestStream(line)
	if ms.Err != nil {
		return nil, ms.Err, nil
	}
	ch := make(chan *FileSegment, 4096)
	ms.sendFileSegmentIterByName(path, ch)
	close(ch)
	for s := range ch {
		segs = append(segs, c10seg{s.Locator, int64(s.Offset), int64(s.Len)})
	}
	return
}

// c10zeroBlockBefore: classifier for known finding F2 – the stream has a
// zero-length block.
func c10hasZeroBlock(m *mgen.Manifest) bool {
	return m.Features().ZeroBlock
}

func c10opts(t *rapid.T) mgen.GenOpts {
	return mgen.GenOpts{Signed: rapid.Bool().Draw(t, "signed"), BigStreams: rapid.IntRange(0, 5).Draw(t, "bigStreams") == 0}
}

// c10extract runs Extract with a watchdog: the package does its work on
// internal goroutines and channels, so a stall shows as a call that never
// returns ("No parser ... hangs on any input").
func c10extract(t *rapid.T, txt, src, relocate string) Manifest {
	done := make(chan Manifest, 1)
	go func() {
		ex := Manifest{Text: txt}
		done <- ex.Extract(src, relocate)
	}()
	select {
	case out := <-done:
		return out
	case <-time.After(20 * time.Second):
		t.Fatalf("Extract(%q,%q) did not return within 20 s (hang) on valid manifest %q", src, relocate, txt)
		panic("unreachable")
	}
}

func TestVerifC10ManifestSegments(t *testing.T) {
	defer stats.Flush()
	rapid.Check(t, func(t *rapid.T) {
		m := mgen.Gen(t, c10opts(t))
		txt := m.Text()
		ref, err := mgen.Interpret(txt, mgen.Options{})
		if err != nil {
			t.Fatalf("VERIF-INFRA: generator produced a manifest the reference rejects: %v\n%q", err, txt)
		}
		store := m.Store()
		lines := strings.Split(strings.TrimSuffix(txt, "\n"), "\n")
		// (1) synchronous internals, stream by stream
		got := map[string][]c10seg{}
		for _, p := range ref.Paths {
			for li, line := range lines {
				if !strings.HasPrefix(p, m.Streams[li].Name+"/") {
					continue
				}
				segs, perr, pan := c10syncSegments(line, p)
				if pan != nil {
					t.Fatalf("panic in sendFileSegmentIterByName(%q) on valid stream %q: %v", p, line, pan)
				}
				if perr != nil {
					t.Fatalf("valid stream rejected: %v\nstream %q", perr, line)
				}
				got[p] = append(got[p], segs...)
			}
		}
		for _, p := range ref.Paths {
			want := c10ref(ref.Segs[p])
			g := c10norm(got[p])
			if fmt.Sprint(g) != fmt.Sprint(want) {
				t.Fatalf("path %q: manifest package segments %v, reference %v\nmanifest %q", p, g, want, txt)
			}
		}
		// (2) the public goroutine API agrees
		mm := Manifest{Text: txt}
		for _, p := range ref.Paths {
			var segs []c10seg
			for s := range mm.FileSegmentIterByName(p) {
				segs = append(segs, c10seg{s.Locator, int64(s.Offset), int64(s.Len)})
			}
			want := c10ref(ref.Segs[p])
			if g := c10norm(segs); fmt.Sprint(g) != fmt.Sprint(want) {
				t.Fatalf("path %q: FileSegmentIterByName %v, reference %v\nmanifest %q", p, g, want, txt)
			}
		}
		// blocks
		var blocks []string
		for b := range mm.BlockIterWithDuplicates() {
			blocks = append(blocks, fmt.Sprintf("%s+%d", b.Digest.String(), b.Size))
		}
		var wantBlocks []string
		for _, s := range ref.Streams {
			for _, l := range s.Locators {
				parts := strings.Split(l, "+")
				wantBlocks = append(wantBlocks, parts[0]+"+"+parts[1])
			}
		}
		if fmt.Sprint(blocks) != fmt.Sprint(wantBlocks) || mm.Err != nil {
			t.Fatalf("BlockIterWithDuplicates %v err %v, reference %v", blocks, mm.Err, wantBlocks)
		}
		_ = store
		f := m.Features()
		stats.Case(stats.FP(txt), f.NonTrivial(), f.Labels()...)
		if f.NonTrivial() && stats.WantSample("manifest-segments") {
			stats.Sample("manifest-segments", txt)
		}
	})
}

// c10expectExtract computes what Extract(src, relocate) must contain,
// following the doc comment of Extract.
func c10expectExtract(content map[string][]byte, src, relocate string) map[string][]byte {
	out := map[string][]byte{}
	trailing := strings.HasSuffix(relocate, "/")
	rel := strings.TrimSuffix(relocate, "/")
	if rel == "" {
		rel = "."
	}
	if data, ok := content[src]; ok {
		base := src[strings.LastIndex(src, "/")+1:]
		switch {
		case rel == ".":
			out["./"+base] = data
		case trailing:
			out[rel+"/"+base] = data
		default:
			out[rel] = data
		}
		return out
	}
	for p, data := range content {
		if src == "." {
			out[rel+p[1:]] = data
		} else if strings.HasPrefix(p, src+"/") {
			out[rel+p[len(src):]] = data
		}
	}
	return out
}

func TestVerifC10Extract(t *testing.T) {
	defer stats.Flush()
	rapid.Check(t, func(t *rapid.T) {
		m := mgen.Gen(t, c10opts(t))
		txt := m.Text()
		content := m.Content()
		store := m.Store()
		// pre-flight on the synchronous internals: a panic there is the finding.
		for li, line := range strings.Split(strings.TrimSuffix(txt, "\n"), "\n") {
			for _, f := range m.Streams[li].Files {
				p := m.Streams[li].Name + "/" + f.Name
				if _, perr, pan := c10syncSegments(line, p); pan != nil {
					t.Fatalf("panic in sendFileSegmentIterByName(%q) on valid stream %q: %v", p, line, pan)
				} else if perr != nil {
					t.Fatalf("valid stream rejected: %v\nstream %q", perr, line)
				}
			}
		}
		// choose src among files, dirs and "."
		var srcs []string
		srcs = append(srcs, ".")
		srcs = append(srcs, m.Paths()...)
		srcs = append(srcs, m.Dirs()...)
		sort.Strings(srcs)
		src := rapid.SampledFrom(srcs).Draw(t, "src")
		relocate := rapid.SampledFrom([]string{".", "./x", "./x/", "./x/y", "./a b", "./x/y/"}).Draw(t, "relocate")
		if rapid.IntRange(0, 2).Draw(t, "normalizeOnly") == 0 {
			src, relocate = ".", "."
		}
		out := c10extract(t, txt, src, relocate)
		if out.Err != nil {
			t.Fatalf("Extract(%q,%q) of valid manifest failed: %v\n%q", src, relocate, out.Err, txt)
		}
		want := c10expectExtract(content, src, relocate)
		if len(want) == 0 {
			t.Skip("nothing selected")
		}
		ref, err := mgen.Interpret(out.Text, mgen.Options{})
		if err != nil {
			t.Fatalf("Extract(%q,%q) output is not a valid manifest: %v\noutput %q\ninput %q", src, relocate, err, out.Text, txt)
		}
		gotPaths := append([]string(nil), ref.Paths...)
		sort.Strings(gotPaths)
		var wantPaths []string
		for p := range want {
			wantPaths = append(wantPaths, p)
		}
		sort.Strings(wantPaths)
		if fmt.Sprintf("%q", gotPaths) != fmt.Sprintf("%q", wantPaths) {
			t.Fatalf("Extract(%q,%q): paths %q, want %q\noutput %q\ninput %q", src, relocate, gotPaths, wantPaths, out.Text, txt)
		}
		for p, w := range want {
			g, err := ref.Bytes(p, store)
			if err != nil || !bytes.Equal(g, w) {
				t.Fatalf("Extract(%q,%q): file %q has bytes %q (err %v), want %q\noutput %q\ninput %q", src, relocate, p, g, err, w, out.Text, txt)
			}
		}
		f := m.Features()
		kind := "extract-dir"
		if _, ok := content[src]; ok {
			kind = "extract-file"
		} else if src == "." && relocate == "." {
			kind = "normalize"
		}
		stats.Case(stats.FP(txt, src, relocate), f.NonTrivial(), append(f.Labels(), kind)...)
		if f.NonTrivial() && stats.WantSample(kind) {
			stats.Sample(kind, map[string]string{"manifest": txt, "src": src, "relocate": relocate, "output": out.Text})
		}
	})
}
