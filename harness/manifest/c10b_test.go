package manifest

import (
	"fmt"
	"strings"
	"testing"

	"pgregory.net/rapid"
	"verif.local/vcommon/mgen"
	"verif.local/vcommon/stats"
)

// No-panic / rejection clause for the manifest package. Its public API does
// its work on internal goroutines where a panic would kill the process, so
// the synchronous internals are exercised under recover first.
func TestVerifC10ManifestMalformed(t *testing.T) {
	defer stats.Flush()
	rapid.Check(t, func(t *rapid.T) {
		var txt, kind string
		mustReject := false
		m := mgen.Gen(t, mgen.GenOpts{Signed: true})
		base := m.Text()
		lines := strings.Split(strings.TrimSuffix(base, "\n"), "\n")
		li := rapid.IntRange(0, len(lines)-1).Draw(t, "line")
		toks := strings.Split(lines[li], " ")
		nblk := len(m.Streams[li].Blocks)
		fileIdx := 1 + nblk + rapid.IntRange(0, len(toks)-nblk-2).Draw(t, "fileIdx")
		kind = rapid.SampledFrom([]string{"arbitrary-bytes", "no-locators", "no-file-tokens", "non-numeric-pos", "non-numeric-size", "past-end", "empty-past-end", "locator-without-size", "bad-stream-name", "drop-token", "dup-token", "swap-tokens", "change-char", "huge-number", "wraparound"}).Draw(t, "kind")
		switch kind {
		case "arbitrary-bytes":
			alphabet := []rune(" \n:+\\/.0123456789abcdef-x\x00é")
			txt = rapid.StringOfN(rapid.RuneFrom(alphabet), 0, 60, -1).Draw(t, "bytes")
			if rapid.Bool().Draw(t, "withLocator") {
				txt = ". d41d8cd98f00b204e9800998ecf8427e+0 " + txt
			}
		case "no-locators":
			toks = append(toks[:1], toks[1+nblk:]...)
			mustReject = true
		case "no-file-tokens":
			toks = toks[:1+nblk]
			mustReject = true
		case "non-numeric-pos":
			toks[fileIdx] = "x" + toks[fileIdx]
			mustReject = true
		case "non-numeric-size":
			p := strings.SplitN(toks[fileIdx], ":", 3)
			toks[fileIdx] = p[0] + ":" + p[1] + "z:" + p[2]
			mustReject = true
		case "huge-number":
			p := strings.SplitN(toks[fileIdx], ":", 3)
			toks[fileIdx] = "99999999999999999999999:" + p[1] + ":" + p[2]
			mustReject = true
		case "wraparound":
			p := strings.SplitN(toks[fileIdx], ":", 3)
			w := rapid.SampledFrom([]string{"18446744073709551615:1", "18446744073709551615:18446744073709551615", "9223372036854775807:1", "9223372036854775807:9223372036854775807", "18446744073709551614:2", "1:18446744073709551615"}).Draw(t, "wrap")
			toks[fileIdx] = w + ":" + p[2]
			mustReject = true
		case "past-end":
			p := strings.SplitN(toks[fileIdx], ":", 3)
			toks[fileIdx] = fmt.Sprintf("%d:%d:%s", m.Streams[li].Len(), 1+rapid.IntRange(0, 5).Draw(t, "by"), p[2])
			mustReject = true
		case "empty-past-end":
			// a zero-length file token that starts beyond the end of the stream
			p := strings.SplitN(toks[fileIdx], ":", 3)
			toks[fileIdx] = fmt.Sprintf("%d:0:%s", m.Streams[li].Len()+1+int64(rapid.IntRange(0, 100).Draw(t, "by")), p[2])
			mustReject = true
		case "locator-without-size":
			toks[1] = toks[1][:32]
			mustReject = true
		case "bad-stream-name":
			toks[0] = "x" + toks[0]
			mustReject = true
		case "drop-token":
			i := rapid.IntRange(0, len(toks)-1).Draw(t, "i")
			toks = append(toks[:i:i], toks[i+1:]...)
		case "dup-token":
			i := rapid.IntRange(0, len(toks)-1).Draw(t, "i")
			toks = append(toks[:i+1:i+1], toks[i:]...)
		case "swap-tokens":
			i := rapid.IntRange(0, len(toks)-1).Draw(t, "i")
			j := rapid.IntRange(0, len(toks)-1).Draw(t, "j")
			toks[i], toks[j] = toks[j], toks[i]
		}
		if kind != "arbitrary-bytes" {
			lines[li] = strings.Join(toks, " ")
			txt = strings.Join(lines, "\n") + "\n"
		}
		if kind == "change-char" {
			i := rapid.IntRange(0, len(txt)-1).Draw(t, "charIdx")
			c := rapid.SampledFrom([]byte{' ', '\n', ':', '+', '\\', '/', '.', '0', 'x', 0, 0xff, '-'}).Draw(t, "char")
			txt = txt[:i] + string([]byte{c}) + txt[i+1:]
		}
		// synchronous internals under recover
		var pan interface{}
		anyErr := false
		func() {
			defer func() { pan = recover() }()
			UnescapeName(txt)
			for _, line := range strings.Split(txt, "\n") {
				if line == "" {
					continue
				}
				ms := parseManifestStream(line)
				if ms.Err != nil {
					anyErr = true
					continue
				}
				for _, f := range ms.FileStreamSegments {
					ch := make(chan *FileSegment, 65536)
					ms.sendFileSegmentIterByName(ms.StreamName+"/"+f.Name, ch)
				}
			}
		}()
		if pan != nil {
			t.Fatalf("%s: manifest package panicked on %q: %v", kind, txt, pan)
		}
		if mustReject && !anyErr {
			t.Fatalf("%s: malformed stream accepted by parseManifestStream: %q", kind, txt)
		}
		// public API (goroutines): safe now that the synchronous path did not panic
		mm := Manifest{Text: txt}
		out := mm.Extract(".", ".")
		if anyErr && out.Err == nil {
			t.Fatalf("%s: Extract succeeded (%q) although a stream has a parse error: %q", kind, out.Text, txt)
		}
		if out.Err != nil && out.Text != "" {
			t.Fatalf("%s: Extract returned both an error and text (partially applied): %q", kind, txt)
		}
		for range mm.BlockIterWithDuplicates() {
		}
		if anyErr && mm.Err == nil {
			t.Fatalf("%s: BlockIterWithDuplicates did not report the parse error of %q", kind, txt)
		}
		stats.Case(stats.FP("manifest-malformed", txt), mustReject || kind == "arbitrary-bytes", "mutation:"+kind)
		if stats.WantSample("manifest-mutation:" + kind) {
			stats.Sample("manifest-mutation:"+kind, map[string]interface{}{"text": txt, "rejected": anyErr})
		}
	})
}
