//go:build verif
// +build verif

// Read-only accessors for the C14/C15 end-to-end monitor (overlaid as
// lib/dispatchcloud/test/verif_hooks.go; never committed to the repo).

package test

import (
	"git.arvados.org/arvados.git/lib/cloud"
)

// VerifProc is a snapshot of one entry of a StubVM's process table.
type VerifProc struct {
	UUID   string
	PID    int64
	Exited bool // crunch-run gone, only the stale lock is left
}

// VerifID returns the instance ID of the VM.
func (svm *StubVM) VerifID() cloud.InstanceID { return svm.id }

// VerifProviderType returns the provider type the VM was created with.
func (svm *StubVM) VerifProviderType() string { return svm.providerType }

// VerifProcs returns a copy of the VM's process table.
func (svm *StubVM) VerifProcs() []VerifProc {
	svm.Lock()
	defer svm.Unlock()
	r := make([]VerifProc, 0, len(svm.running))
	for uuid, p := range svm.running {
		r = append(r, VerifProc{UUID: uuid, PID: p.pid, Exited: p.exited})
	}
	return r
}

// VerifKilling reports whether a "crunch-run --kill" for uuid has reached
// this VM (the fake crunch-run itself only looks at this before it sets
// state=Running; the harness's payload polls it to model a process that
// obeys SIGTERM).
func (svm *StubVM) VerifKilling(uuid string) bool {
	svm.Lock()
	defer svm.Unlock()
	return svm.killing[uuid]
}

// VerifClearKilling forgets an earlier "crunch-run --kill" for uuid unless a
// live process for uuid exists on this VM (the stub keeps the flag for
// ever, which would make every later crunch-run for the same container on
// this VM exit early).
func (svm *StubVM) VerifClearKilling(uuid string) {
	svm.Lock()
	defer svm.Unlock()
	if p, ok := svm.running[uuid]; !ok || p.exited {
		delete(svm.killing, uuid)
	}
}

// VerifVMs returns the VMs that currently exist (i.e. were created and
// not yet successfully destroyed). It does not consume the Instances()
// rate-limit allowance.
func (sis *StubInstanceSet) VerifVMs() []*StubVM {
	sis.mtx.RLock()
	defer sis.mtx.RUnlock()
	r := make([]*StubVM, 0, len(sis.servers))
	for _, svm := range sis.servers {
		r = append(r, svm)
	}
	return r
}

// VerifEntries returns a copy of the queue's "database" (Containers).
func (q *Queue) VerifContainers() []VerifCtr {
	q.mtx.Lock()
	defer q.mtx.Unlock()
	r := make([]VerifCtr, len(q.Containers))
	for i, c := range q.Containers {
		r[i] = VerifCtr{UUID: c.UUID, State: string(c.State), Priority: c.Priority}
	}
	return r
}

// VerifCtr is the part of a container record the monitor looks at.
type VerifCtr struct {
	UUID     string
	State    string
	Priority int64
}

// VerifGetDB returns the database record (not the cached entry) of one
// container.
func (q *Queue) VerifGetDB(uuid string) (VerifCtr, bool) {
	q.mtx.Lock()
	defer q.mtx.Unlock()
	for _, c := range q.Containers {
		if c.UUID == uuid {
			return VerifCtr{UUID: c.UUID, State: string(c.State), Priority: c.Priority}, true
		}
	}
	return VerifCtr{}, false
}

// VerifCancel simulates an API-side cancel request by the container's
// owner (allowed from Queued, Locked and Running, as in
// allowContainerUpdate). Visible to the dispatcher at the next Update().
func (q *Queue) VerifCancel(uuid string) bool {
	q.mtx.Lock()
	defer q.mtx.Unlock()
	for i, c := range q.Containers {
		if c.UUID == uuid {
			if !allowContainerUpdate[c.State]["Cancelled"] {
				return false
			}
			q.Containers[i].State = "Cancelled"
			return true
		}
	}
	return false
}

// VerifSetPriority simulates an API-side priority change by somebody
// other than the dispatcher. It becomes visible to the dispatcher at
// the next Update(), like Notify.
func (q *Queue) VerifSetPriority(uuid string, prio int64) bool {
	q.mtx.Lock()
	defer q.mtx.Unlock()
	for i, c := range q.Containers {
		if c.UUID == uuid {
			if c.State == "Complete" || c.State == "Cancelled" {
				return false
			}
			q.Containers[i].Priority = prio
			return true
		}
	}
	return false
}
