package dispatchcloud

// C14(c): dispatcher never runs a container twice at once or without holding
// its lock (end-to-end slice).  C15: every runnable container reaches a final
// state; idle instances are released (bounded liveness with stuck detection).

import (
	"encoding/json"
	"fmt"
	"io/ioutil"
	"os"
	"runtime"
	"runtime/debug"
	"strconv"
	"strings"
	"testing"
	"time"

	"verif.local/vcommon/stats"
)

// vGuardTest turns a panic on the test goroutine (harness code) into an
// infrastructure failure instead of a process crash.
func vGuardTest(t *testing.T) {
	if r := recover(); r != nil {
		t.Fatalf("VERIF-INFRA: panic on the harness goroutine: %v\n%s", r, debug.Stack())
	}
}

// vWatchdog bounds one scenario: if the harness itself hangs (a deadlock in
// harness code cannot be broken from inside), the shard ends at once as an
// infrastructure failure with a goroutine dump instead of running into the
// driver's time-out.
func vWatchdog(what string, d time.Duration) (cancel func()) {
	done := make(chan struct{})
	go func() {
		select {
		case <-done:
		case <-time.After(d):
			buf := make([]byte, 1<<20)
			n := runtime.Stack(buf, true)
			fmt.Fprintf(os.Stderr, "VERIF-INFRA: harness watchdog: %s still running after %s\n%s\n", what, d, buf[:n])
			os.Exit(3)
		}
	}()
	return func() { close(done) }
}

func vEnvInt(name string, def int) int {
	if v, err := strconv.Atoi(os.Getenv(name)); err == nil {
		return v
	}
	return def
}

func vSeedEff() int64 {
	v, err := strconv.ParseInt(os.Getenv("VERIF_SEED_EFF"), 10, 64)
	if err != nil || v == 0 {
		return 1
	}
	return v
}

func vLoadReplay(t *testing.T) *vScenario {
	path := os.Getenv("VERIF_REPLAY")
	if path == "" {
		return nil
	}
	buf, err := ioutil.ReadFile(path)
	if err != nil {
		t.Fatalf("VERIF-INFRA: cannot read replay file: %v", err)
	}
	var art struct{ Scenario *vScenario }
	if err := json.Unmarshal(buf, &art); err != nil || art.Scenario == nil {
		t.Fatalf("VERIF-INFRA: replay file has no Scenario: %v", err)
	}
	return art.Scenario
}

func vReport(t *testing.T, rn *vRunner, res *vResult, prop string) {
	sc := rn.sc
	// C14 judges mutual exclusion/lock and instance-state clauses; C15 judges
	// the instance-state clauses it shares with C14 and convergence.
	var mine []string
	for _, v := range res.Violations {
		switch {
		case strings.HasPrefix(v, "[excl]") && prop == "C14",
			strings.HasPrefix(v, "[inst]"),
			strings.HasPrefix(v, "[stuck]") && prop == "C15":
			mine = append(mine, v)
		default:
			stats.Label("other-property-violation-seen")
			fmt.Printf("NOTE (not judged by %s): %s\n", prop, v)
		}
	}
	res.Violations = mine
	if len(res.Violations) > 0 {
		path := rn.writeArtifact(res, fmt.Sprintf("%s-scenario-%d.json", prop, sc.Seed))
		fmt.Printf("VERIF-REPLAY: %s\n", path)
		msg := ""
		for i, v := range res.Violations {
			if i >= 8 {
				msg += fmt.Sprintf("  ... %d more\n", len(res.Violations)-i)
				break
			}
			msg += "  " + v + "\n"
		}
		scj, _ := json.Marshal(scBrief(sc))
		t.Fatalf("%s violated in scenario seed=%d (%d containers):\n%ssummary: %v\nscenario (brief): %s\nfull scenario, event history and dispatcher log: %s",
			prop, sc.Seed, len(sc.Containers), msg, res.Summary, scj, path)
	}
	if len(res.Infra) > 0 {
		path := rn.writeArtifact(res, fmt.Sprintf("%s-infra-%d.json", prop, sc.Seed))
		t.Fatalf("%v\nsummary: %v\nartifact: %s", res.Infra, res.Summary, path)
	}
}

func scBrief(sc *vScenario) map[string]interface{} {
	return map[string]interface{}{
		"Seed": sc.Seed, "Mode": sc.Mode, "N": len(sc.Containers), "Gomaxprocs": sc.Gomaxprocs, "DestroyErrRate": sc.DestroyErrRate,
		"MinCreateGapUs": sc.MinCreateGapUs, "MinListGapUs": sc.MinListGapUs, "QuotaAtCreate": sc.QuotaAtCreate, "SlowQuota": sc.SlowQuota,
		"Restarts": sc.Restarts, "NEvents": len(sc.Events), "StaleLockTimeoutMs": sc.StaleLockTimeoutMs, "TimeScale": sc.TimeScale,
	}
}

func vRecord(sc *vScenario, res *vResult, prop string) {
	stats.Case(stats.FP(prop, sc.Seed, len(sc.Containers)), res.Nontrivial, res.Labels...)
	for _, l := range res.Labels {
		if stats.WantSample(l) && (l == "restart-with-live-procs" || l == "crash-after-running" || l == "vm-never-boots" || l == "quota-error" || l == "has-unkillable") {
			stats.Sample(l, map[string]interface{}{"scenario": scBrief(sc), "summary": res.Summary})
		}
	}
	stats.InfoAdd("crunch_run_starts", int64(res.Summary["starts"].(int)))
	stats.InfoAdd("vms_created", int64(res.Summary["vms_created"].(int)))
	stats.InfoAdd("kills_delivered", int64(res.Summary["kills"].(int)))
	stats.InfoAdd("containers", int64(res.Summary["containers"].(int)))
	stats.InfoAdd("scenario_wall_ms", res.WallMs)
}

// TestVerifC14E2E runs generated scenarios and checks the safety invariants
// (monitor in mon_test.go). Liveness is not judged here.
func TestVerifC14E2E(t *testing.T) {
	defer stats.Flush()
	defer vGuardTest(t)
	lim := vLimits{idleCap: 1500 * time.Millisecond, totalCap: 25 * time.Second}
	if sc := vLoadReplay(t); sc != nil {
		for i := 0; i < 20; i++ {
			rn, err := vNewRunner(sc)
			if err != nil {
				t.Fatalf("VERIF-INFRA: %v", err)
			}
			sc.Mode = "c14"
			res := rn.run(lim)
			t.Logf("replay attempt %d: violations=%d summary=%v", i+1, len(res.Violations), res.Summary)
			if len(res.Violations) > 0 {
				vReport(t, rn, res, "C14")
			}
		}
		return
	}
	n := vEnvInt("VERIF_SCENARIOS", 2)
	maxN := vEnvInt("VERIF_MAXN", 150)
	base := vSeedEff()
	for i := 0; i < n; i++ {
		seed := (base*1000003 + int64(i)*7919) & 0x7fffffffffff
		if v, err := strconv.ParseInt(os.Getenv("VERIF_SCENARIO_SEED"), 10, 64); err == nil {
			seed = v // development: run one specific generated scenario
		}
		sc := vGenScenario(seed, "c14", maxN, false)
		rn, err := vNewRunner(sc)
		if err != nil {
			t.Fatalf("VERIF-INFRA: %v", err)
		}
		stopWD := vWatchdog(fmt.Sprintf("C14 scenario seed=%d", seed), lim.totalCap+90*time.Second)
		res := rn.run(lim)
		stopWD()
		t.Logf("scenario %d seed=%d: %v labels=%v", i, seed, res.Summary, res.Labels)
		vReport(t, rn, res, "C14")
		vRecord(sc, res, "C14")
	}
}

// TestVerifC15Liveness runs premise-restricted scenarios (cloud eventually
// healthy) and checks convergence with the stuck rule.
func TestVerifC15Liveness(t *testing.T) {
	defer stats.Flush()
	defer vGuardTest(t)
	// fault-free completion time, measured in this process
	cal := &vScenario{Seed: 424242, Mode: "c15", Gomaxprocs: 4, StaleLockTimeoutMs: 5, TimeScale: 1}
	for i := 0; i < 50; i++ {
		cal.Containers = append(cal.Containers, vCtr{Priority: int64(i%5 + 1), RAMGiB: 1 + i%3, VCPUs: 1 + i%4, Behaviour: "normal", RunMs: 10})
	}
	rn, err := vNewRunner(cal)
	if err != nil {
		t.Fatalf("VERIF-INFRA: %v", err)
	}
	stopCal := vWatchdog("fault-free calibration run", 300*time.Second)
	cres := rn.run(vLimits{deadline: 120 * time.Second, stuckAfter: 30 * time.Second})
	stopCal()
	if !cres.Drained {
		if len(cres.Violations) > 0 {
			// a fault-free run that gets stuck is a liveness failure too
			vReport(t, rn, cres, "C15")
		}
		t.Fatalf("VERIF-INFRA: fault-free calibration run did not drain: %v %v", cres.Infra, cres.Summary)
	}
	perCtr := time.Duration(cres.WallMs) * time.Millisecond / 50
	stats.Info("calibration_ms_50_containers", cres.WallMs)
	limFor := func(sc *vScenario) vLimits {
		d := 100 * perCtr * time.Duration(len(sc.Containers))
		if d < 60*time.Second {
			d = 60 * time.Second
		}
		// stuck window: 10 s, stretched when this process is observably slow
		// (busy machine): 5x the fault-free 50-container run. A longer
		// window costs nothing on runs that converge.
		st := 10 * time.Second
		if x := 5 * time.Duration(cres.WallMs) * time.Millisecond; x > st {
			st = x
		}
		if st > 30*time.Second {
			st = 30 * time.Second
		}
		if d < 4*st {
			d = 4 * st
		}
		// keep a shard inside its time-out whatever happens (reaching D is
		// "inconclusive", never a verdict)
		if dcap := time.Duration(vEnvInt("VERIF_DCAP_S", 120)) * time.Second; d > dcap {
			d = dcap
		}
		if sc.SlowQuota {
			d += 70 * time.Second
		}
		return vLimits{deadline: d, stuckAfter: st}
	}
	if sc := vLoadReplay(t); sc != nil {
		sc.Mode = "c15"
		for i := 0; i < 5; i++ {
			rn, err := vNewRunner(sc)
			if err != nil {
				t.Fatalf("VERIF-INFRA: %v", err)
			}
			res := rn.run(limFor(sc))
			t.Logf("replay attempt %d: violations=%d infra=%v summary=%v", i+1, len(res.Violations), res.Infra, res.Summary)
			if len(res.Violations) > 0 {
				vReport(t, rn, res, "C15")
			}
		}
		return
	}
	n := vEnvInt("VERIF_SCENARIOS", 2)
	maxN := vEnvInt("VERIF_MAXN", 150)
	slow := vEnvInt("VERIF_SLOWQUOTA", 0)
	base := vSeedEff()
	for i := 0; i < n; i++ {
		seed := (base*1000003 + int64(i)*7919 + 17) & 0x7fffffffffff
		if v, err := strconv.ParseInt(os.Getenv("VERIF_SCENARIO_SEED"), 10, 64); err == nil {
			seed = v // development: run one specific generated scenario
		}
		sc := vGenScenario(seed, "c15", maxN, slow > 0)
		if sc.SlowQuota {
			slow--
		}
		rn, err := vNewRunner(sc)
		if err != nil {
			t.Fatalf("VERIF-INFRA: %v", err)
		}
		lim := limFor(sc)
		stopWD := vWatchdog(fmt.Sprintf("C15 scenario seed=%d", seed), lim.deadline+lim.stuckAfter+150*time.Second)
		res := rn.run(lim)
		stopWD()
		t.Logf("scenario %d seed=%d: %v labels=%v", i, seed, res.Summary, res.Labels)
		vReport(t, rn, res, "C15")
		vRecord(sc, res, "C15")
	}
}
