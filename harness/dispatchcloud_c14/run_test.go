package dispatchcloud

// C14(c)/C15 end-to-end runner: real dispatcher.run() + scheduler + worker.Pool
// + sshexecutor against test.StubDriver/test.Queue over loopback SSH, as in
// upstream's TestDispatchToStubDriver, driven by a generated scenario.

import (
	"bytes"
	"context"
	"encoding/json"
	"fmt"
	"hash/fnv"
	"io"
	"io/ioutil"
	"math/rand"
	"os"
	"path/filepath"
	"runtime"
	"sort"
	"strings"
	"sync"
	"sync/atomic"
	"time"

	"git.arvados.org/arvados.git/lib/cloud"
	"git.arvados.org/arvados.git/lib/dispatchcloud/sshexecutor"
	"git.arvados.org/arvados.git/lib/dispatchcloud/test"
	"git.arvados.org/arvados.git/lib/dispatchcloud/worker"
	"git.arvados.org/arvados.git/sdk/go/arvados"
	"git.arvados.org/arvados.git/sdk/go/arvadostest"
	"git.arvados.org/arvados.git/sdk/go/ctxlog"
	"github.com/prometheus/client_golang/prometheus"
	"github.com/sirupsen/logrus"
	"golang.org/x/crypto/ssh"
)

// ---------------------------------------------------------------- logging

type vRing struct {
	mu    sync.Mutex
	lines []string
	next  int
	full  bool
}

func (r *vRing) Write(p []byte) (int, error) {
	r.mu.Lock()
	defer r.mu.Unlock()
	if r.lines == nil {
		r.lines = make([]string, 4000)
	}
	r.lines[r.next] = string(p)
	r.next++
	if r.next == len(r.lines) {
		r.next, r.full = 0, true
	}
	return len(p), nil
}

func (r *vRing) Dump() []string {
	r.mu.Lock()
	defer r.mu.Unlock()
	var out []string
	if r.full {
		out = append(out, r.lines[r.next:]...)
	}
	out = append(out, r.lines[:r.next]...)
	return out
}

// ---------------------------------------------------------------- keys

type vKeys struct {
	dispatchPub     ssh.PublicKey
	dispatchPrivRaw []byte
	hostPriv        ssh.Signer
}

var vKeysOnce sync.Once
var vKeysVal vKeys
var vKeysErr error

func vLoadKeys() (vKeys, error) {
	vKeysOnce.Do(func() {
		repo := os.Getenv("VERIF_REPO")
		if repo == "" {
			repo = "/repo"
		}
		dir := filepath.Join(repo, "lib", "dispatchcloud", "test")
		rawpub, err := ioutil.ReadFile(filepath.Join(dir, "sshkey_dispatch.pub"))
		if err != nil {
			vKeysErr = err
			return
		}
		vKeysVal.dispatchPub, _, _, _, err = ssh.ParseAuthorizedKey(rawpub)
		if err != nil {
			vKeysErr = err
			return
		}
		vKeysVal.dispatchPrivRaw, err = ioutil.ReadFile(filepath.Join(dir, "sshkey_dispatch"))
		if err != nil {
			vKeysErr = err
			return
		}
		rawhost, err := ioutil.ReadFile(filepath.Join(dir, "sshkey_vm"))
		if err != nil {
			vKeysErr = err
			return
		}
		vKeysVal.hostPriv, vKeysErr = ssh.ParsePrivateKey(rawhost)
	})
	return vKeysVal, vKeysErr
}

// ---------------------------------------------------------------- result

type vResult struct {
	Violations    []string
	Infra         []string
	Labels        []string
	Nontrivial    bool
	Drained       bool
	WallMs        int64
	Summary       map[string]interface{}
	ProbeMedianUs int64
	artifact      string
}

type vRunner struct {
	sc       *vScenario
	m        *vMonitor
	keys     vKeys
	ring     *vRing
	logger   *logrus.Logger
	cluster  *arvados.Cluster
	sisWrap  *test.StubInstanceSet
	disp     *dispatcher
	cancel   context.CancelFunc
	gen      int
	exrMu    sync.Mutex
	executor []*sshexecutor.Executor
	restarts int
}

func vCtrUUID(i int) string { return test.ContainerUUID(i + 1) }

func (rn *vRunner) baseCluster() *arvados.Cluster {
	ts := time.Duration(rn.sc.TimeScale)
	if ts < 1 {
		ts = 1
	}
	ms := time.Millisecond
	cluster := &arvados.Cluster{
		ManagementToken: "test-management-token",
		Containers: arvados.ContainersConfig{
			CrunchRunCommand:       "crunch-run",
			CrunchRunArgumentsList: []string{"--foo", "--extra='args'"},
			DispatchPrivateKey:     string(rn.keys.dispatchPrivRaw),
			StaleLockTimeout:       arvados.Duration(time.Duration(rn.sc.StaleLockTimeoutMs) * ms),
			CloudVMs: arvados.CloudVMsConfig{
				Driver:               "verif",
				SyncInterval:         arvados.Duration(10 * ms * ts),
				TimeoutIdle:          arvados.Duration(150 * ms * ts),
				TimeoutBooting:       arvados.Duration(150 * ms * ts),
				TimeoutProbe:         arvados.Duration(15 * ms * ts),
				TimeoutShutdown:      arvados.Duration(5 * ms * ts),
				MaxCloudOpsPerSecond: 500,
				PollInterval:         arvados.Duration(5 * ms * ts),
				ProbeInterval:        arvados.Duration(5 * ms * ts),
				MaxProbesPerSecond:   1000,
				TimeoutSignal:        arvados.Duration(3 * ms * ts),
				TimeoutStaleRunLock:  arvados.Duration(3 * ms * ts),
				TimeoutTERM:          arvados.Duration(100 * ms * ts), // 20x PollInterval: as in production, kill requests are re-issued far more often than the give-up deadline (lead; a seeded "deadline pushed on every Kill()" defect went unnoticed at 4x)
				ResourceTags:         map[string]string{"testtag": "test value"},
				TagKeyPrefix:         "test:",
			},
		},
		InstanceTypes: arvados.InstanceTypeMap{},
	}
	for _, i := range []int{1, 2, 3, 4, 6, 8, 16} {
		cluster.InstanceTypes[test.InstanceType(i).Name] = test.InstanceType(i)
	}
	arvadostest.SetServiceURL(&cluster.Services.DispatchCloud, "http://localhost:/")
	arvadostest.SetServiceURL(&cluster.Services.Controller, "https://verif.invalid/")
	return cluster
}

func vNewRunner(sc *vScenario) (*vRunner, error) {
	keys, err := vLoadKeys()
	if err != nil {
		return nil, err
	}
	rn := &vRunner{sc: sc, keys: keys, ring: &vRing{}}
	rn.logger = logrus.New()
	rn.logger.Out = rn.ring
	rn.logger.Level = logrus.InfoLevel
	rn.logger.Formatter = &logrus.TextFormatter{DisableColors: true, TimestampFormat: "15:04:05.000000"}
	rn.cluster = rn.baseCluster()

	queue := &test.Queue{
		ChooseType: func(ctr *arvados.Container) (arvados.InstanceType, error) {
			return ChooseInstanceType(rn.cluster, ctr)
		},
		Logger: rn.logger,
	}
	m := &vMonitor{
		sc: sc, t0: time.Now(), queue: queue,
		genStart: map[int]time.Time{}, genStartSq: map[int]int64{},
		vms: map[cloud.InstanceID]*vVMInfo{}, ctrs: map[string]*vCtrTrack{},
		decisions: map[string]*vDecision{}, inherited: map[string]map[vProcRef]bool{},
		heldNow:  map[cloud.InstanceID]bool{},
		intended: map[cloud.InstanceID]worker.IdleBehavior{},
		inflight: map[string]int{}, inflightDec: map[string]*vDecision{},
		rng:     rand.New(rand.NewSource(sc.Seed ^ 0x5eed)),
		deadGen: -1, curGen: -1,
	}
	m.staleLockTO = time.Duration(rn.cluster.Containers.StaleLockTimeout)
	m.bootTO = time.Duration(rn.cluster.Containers.CloudVMs.TimeoutBooting)
	for i, c := range sc.Containers {
		ctr := arvados.Container{
			UUID:     vCtrUUID(i),
			State:    arvados.ContainerStateQueued,
			Priority: c.Priority,
			RuntimeConstraints: arvados.RuntimeConstraints{
				RAM:   int64(c.RAMGiB) << 30,
				VCPUs: c.VCPUs,
			},
		}
		if _, err := ChooseInstanceType(rn.cluster, &ctr); err != nil {
			return nil, fmt.Errorf("VERIF-INFRA: generated container %d is not satisfiable: %v", i, err)
		}
		queue.Containers = append(queue.Containers, ctr)
		m.ctrs[ctr.UUID] = &vCtrTrack{idx: i, prioPosSeen: ctr.Priority > 0, lockSeen: ctr.State == arvados.ContainerStateLocked}
	}
	sd := &test.StubDriver{
		HostKey:                      keys.hostPriv,
		AuthorizedKeys:               []ssh.PublicKey{keys.dispatchPub},
		ErrorRateDestroy:             sc.DestroyErrRate,
		MinTimeBetweenCreateCalls:    time.Duration(sc.MinCreateGapUs) * time.Microsecond,
		MinTimeBetweenInstancesCalls: time.Duration(sc.MinListGapUs) * time.Microsecond,
		Queue:                        queue,
		SetupVM:                      m.setupVM,
	}
	sd.Bugf = func(format string, args ...interface{}) {
		m.bugMu.Lock()
		m.bugs = append(m.bugs, fmt.Sprintf(format, args...))
		m.bugMu.Unlock()
	}
	m.sd = sd
	is, err := sd.InstanceSet(nil, "verif-set", nil, rn.logger)
	if err != nil {
		return nil, err
	}
	rn.sisWrap = is.(*test.StubInstanceSet)
	rn.m = m
	return rn, nil
}

// vExecutor is the pool's executor (real sshexecutor) plus a note of which
// "crunch-run --detach" calls have not returned yet.
type vExecutor struct {
	*sshexecutor.Executor
	m  *vMonitor
	vm string
}

func (e *vExecutor) Execute(env map[string]string, cmd string, stdin io.Reader) ([]byte, []byte, error) {
	if strings.Contains(cmd, "crunch-run --detach ") {
		key := e.vm + "/" + vUUIDRe.FindString(cmd)
		m := e.m
		m.mu.Lock()
		m.inflight[key]++
		if d := m.decisions[vUUIDRe.FindString(cmd)]; d != nil && !d.claimed {
			d.claimed = true
			m.inflightDec[key] = d
		}
		m.mu.Unlock()
		defer func() {
			m.mu.Lock()
			if m.inflight[key]--; m.inflight[key] <= 0 {
				delete(m.inflight, key)
				delete(m.inflightDec, key)
			}
			m.mu.Unlock()
		}()
	}
	return e.Executor.Execute(env, cmd, stdin)
}

// vGauge measures, with the same machinery the pool uses (sshexecutor over
// loopback to a test.SSHService), how long a trivial ssh command round trip
// takes in this process right now. It is independent of what the dispatcher is
// doing, so it can tell "the dispatcher is stuck" from "this process is starved".
type vGauge struct {
	svc  *test.SSHService
	exr  *sshexecutor.Executor
	stop chan struct{}
}

type vGaugeTarget struct{ svc *test.SSHService }

func (t vGaugeTarget) Address() string                                { return t.svc.Address() }
func (t vGaugeTarget) RemoteUser() string                             { return "root" }
func (t vGaugeTarget) VerifyHostKey(ssh.PublicKey, *ssh.Client) error { return nil }

func (rn *vRunner) startGauge() *vGauge {
	svc := &test.SSHService{
		HostKey:        rn.keys.hostPriv,
		AuthorizedUser: "root",
		AuthorizedKeys: []ssh.PublicKey{rn.keys.dispatchPub},
		Exec: func(env map[string]string, command string, stdin io.Reader, stdout, stderr io.Writer) uint32 {
			return 0
		},
	}
	g := &vGauge{svc: svc, stop: make(chan struct{})}
	key, err := ssh.ParsePrivateKey(rn.keys.dispatchPrivRaw)
	if err != nil || svc.Start() != nil {
		return g
	}
	g.exr = sshexecutor.New(vGaugeTarget{svc})
	g.exr.SetSigners(key)
	m := rn.m
	go func() {
		defer m.guard("latency gauge", nil)
		for {
			select {
			case <-g.stop:
				return
			default:
			}
			t0 := time.Now()
			_, _, err := g.exr.Execute(nil, "true", nil)
			if err == nil {
				m.mu.Lock()
				if len(m.probeDur) < 4096 {
					m.probeDur = append(m.probeDur, vProbeDur{})
				}
				m.probeDur[m.probeDurNext%len(m.probeDur)] = vProbeDur{at: time.Now(), dur: time.Since(t0)}
				m.probeDurNext++
				m.mu.Unlock()
			}
			time.Sleep(20 * time.Millisecond)
		}
	}()
	return g
}

func (g *vGauge) Stop() {
	close(g.stop)
	if g.exr != nil {
		g.exr.Close()
	}
	g.svc.Close()
}

type vProbeDur struct {
	at  time.Time
	dur time.Duration
}

// probeLatency returns the number and the median duration of the latency
// gauge's ssh round trips completed since t.
func (m *vMonitor) probeLatency(since time.Time) (int, time.Duration) {
	m.mu.Lock()
	var ds []time.Duration
	for _, p := range m.probeDur {
		if p.at.After(since) {
			ds = append(ds, p.dur)
		}
	}
	m.mu.Unlock()
	if len(ds) == 0 {
		return 0, 0
	}
	sort.Slice(ds, func(i, j int) bool { return ds[i] < ds[j] })
	return len(ds), ds[len(ds)/2]
}

type vGenDriver struct {
	m   *vMonitor
	sis *test.StubInstanceSet
	gen int
}

func (d vGenDriver) InstanceSet(params json.RawMessage, id cloud.InstanceSetID, tags cloud.SharedResourceTags, logger logrus.FieldLogger) (cloud.InstanceSet, error) {
	return &vInstanceSet{m: d.m, sis: d.sis, gen: d.gen}, nil
}

// startGen starts dispatcher generation rn.gen. It repeats what
// dispatcher.initialize() does (minus the HTTP handler), with two differences:
// the executor factory remembers the executors so that their connections can
// be closed when the scenario ends, and queue/pool are wrapped by the monitor.
func (rn *vRunner) startGen() error {
	gen := rn.gen
	m := rn.m
	cluster := *rn.cluster
	cluster.Containers.CrunchRunCommand = fmt.Sprintf("/gen%d/crunch-run", gen)
	cluster.Containers.CloudVMs.BootProbeCommand = fmt.Sprintf("/gen%d/true", gen)
	ctx, cancel := context.WithCancel(context.Background())
	ctx = ctxlog.Context(ctx, rn.logger.WithField("gen", gen))
	rn.cancel = cancel
	arvClient, err := arvados.NewClientFromConfig(&cluster)
	if err != nil {
		return err
	}
	m.mu.Lock()
	m.curGen = gen
	m.genStart[gen] = time.Now()
	m.genStartSq[gen] = m.ev(gen, "gen-start", "", "", "")
	m.decisions = map[string]*vDecision{}
	m.lastEntries, m.lastRunning = nil, nil
	m.lastEntriesAt = time.Now()
	m.mu.Unlock()

	disp := &dispatcher{
		Cluster:       &cluster,
		Context:       ctx,
		ArvClient:     arvClient,
		AuthToken:     arvadostest.AdminToken,
		Registry:      prometheus.NewRegistry(),
		InstanceSetID: "verif-set",
	}
	disp.setupOnce.Do(func() {})
	disp.logger = ctxlog.FromContext(ctx)
	disp.ArvClient.AuthToken = disp.AuthToken
	disp.stop = make(chan struct{}, 1)
	disp.stopped = make(chan struct{})
	key, err := ssh.ParsePrivateKey([]byte(cluster.Containers.DispatchPrivateKey))
	if err != nil {
		return err
	}
	disp.sshKey = key
	Drivers["verif"] = vGenDriver{m: m, sis: rn.sisWrap, gen: gen}
	instanceSet, err := newInstanceSet(disp.Cluster, disp.InstanceSetID, disp.logger, disp.Registry)
	if err != nil {
		return err
	}
	disp.instanceSet = instanceSet
	newExecutor := func(inst cloud.Instance) worker.Executor {
		exr := sshexecutor.New(inst)
		exr.SetTargetPort(disp.Cluster.Containers.CloudVMs.SSHPort)
		exr.SetSigners(disp.sshKey)
		rn.exrMu.Lock()
		rn.executor = append(rn.executor, exr)
		rn.exrMu.Unlock()
		return &vExecutor{Executor: exr, m: m, vm: string(inst.ID())}
	}
	wp := worker.NewPool(disp.logger, disp.ArvClient, disp.Registry, disp.InstanceSetID, disp.instanceSet, newExecutor, disp.sshKey.PublicKey(), disp.Cluster)
	disp.pool = &vPool{pool: wp, m: m, gen: gen}
	disp.queue = &vQueue{m: m, q: m.queue, gen: gen}
	rn.disp = disp
	go disp.run()
	return nil
}

// stopGen simulates the death of the dispatcher process: from this moment none
// of its commands, cloud calls or queue writes take effect any more.
func (rn *vRunner) stopGen() error {
	m := rn.m
	atomic.StoreInt32(&m.deadGen, int32(rn.gen))
	live := m.allLiveProcs()
	m.mu.Lock()
	n := 0
	for uuid, refs := range live {
		n += len(refs)
		if m.inherited[uuid] == nil {
			m.inherited[uuid] = map[vProcRef]bool{}
		}
		for ref := range refs {
			m.inherited[uuid][ref] = true
		}
	}
	m.ev(rn.gen, "gen-dead", "", "", fmt.Sprintf("live=%d", n))
	m.mu.Unlock()
	rn.cancel()
	done := make(chan struct{})
	go func() {
		rn.disp.Close()
		close(done)
	}()
	select {
	case <-done:
	case <-time.After(60 * time.Second):
		return fmt.Errorf("VERIF-INFRA: dispatcher.Close() did not return within 60 s")
	}
	if n > 0 {
		rn.restarts++
	}
	return nil
}

// ---------------------------------------------------------------- observation

type vObs struct {
	hash     uint64
	final    int // Complete or Cancelled
	held     int // Queued with priority 0
	pending  []string
	nvm      int
	nlive    int
	byState  map[string]int
	running  map[string]bool
	ctrState map[string]test.VerifCtr
}

func (rn *vRunner) observe() vObs {
	m := rn.m
	o := vObs{byState: map[string]int{}, running: map[string]bool{}, ctrState: map[string]test.VerifCtr{}}
	h := fnv.New64a()
	for _, c := range m.queue.VerifContainers() {
		fmt.Fprintf(h, "%s/%s/%d;", c.UUID, c.State, c.Priority)
		o.byState[c.State]++
		o.ctrState[c.UUID] = c
		switch {
		case c.State == "Complete" || c.State == "Cancelled":
			o.final++
		case c.State == "Queued" && c.Priority == 0:
			o.held++
		default:
			if c.State == "Running" {
				o.running[c.UUID] = true
			}
			if len(o.pending) < 10 {
				o.pending = append(o.pending, fmt.Sprintf("%s:%s:p%d", c.UUID[len(c.UUID)-4:], c.State, c.Priority))
			}
		}
	}
	vms := rn.sisWrap.VerifVMs()
	ids := make([]string, 0, len(vms))
	for _, svm := range vms {
		procs := svm.VerifProcs()
		ps := make([]string, 0, len(procs))
		for _, p := range procs {
			ps = append(ps, fmt.Sprintf("%s/%d/%v", p.UUID, p.PID, p.Exited))
			if !p.Exited {
				o.nlive++
			}
		}
		sort.Strings(ps)
		ids = append(ids, string(svm.VerifID())+"["+strings.Join(ps, ",")+"]")
	}
	sort.Strings(ids)
	for _, s := range ids {
		fmt.Fprint(h, s, ";")
	}
	o.nvm = len(vms)
	o.hash = h.Sum64()
	return o
}

func (rn *vRunner) fire(ev vEvent) {
	m := rn.m
	switch ev.Kind {
	case "cancel":
		m.apiCancel(vCtrUUID(ev.Ctr - 1))
	case "prio":
		m.apiPriority(vCtrUUID(ev.Ctr-1), ev.Prio)
	case "hold", "drain", "run":
		m.mu.Lock()
		var id cloud.InstanceID
		if ev.VM-1 < len(m.vmByOrd) {
			id = m.vmByOrd[ev.VM-1].id
		}
		m.mu.Unlock()
		if id != "" && rn.disp != nil {
			m.setIdleBehavior(rn.disp.pool.(*vPool).pool, rn.gen, id, worker.IdleBehavior(ev.Kind))
		}
	}
}

func (rn *vRunner) reassertReleases() {
	m := rn.m
	if rn.disp == nil || m.isDead(rn.gen) {
		return
	}
	inner := rn.disp.pool.(*vPool).pool
	for _, v := range inner.Instances() {
		if v.IdleBehavior != worker.IdleBehaviorHold {
			continue
		}
		m.mu.Lock()
		want, ok := m.intended[v.Instance]
		m.mu.Unlock()
		if ok && want != worker.IdleBehaviorHold {
			m.setIdleBehavior(inner, rn.gen, v.Instance, want)
		}
	}
}

func (rn *vRunner) releaseHolds() {
	m := rn.m
	m.mu.Lock()
	var ids []cloud.InstanceID
	for id := range m.heldNow {
		ids = append(ids, id)
	}
	m.mu.Unlock()
	for _, id := range ids {
		m.setIdleBehavior(rn.disp.pool.(*vPool).pool, rn.gen, id, worker.IdleBehaviorDrain)
	}
	// a hold set through a previous dispatcher generation survives in the
	// instance tags; release whatever the current pool reports as held
	for _, v := range rn.disp.pool.Instances() {
		if v.IdleBehavior == worker.IdleBehaviorHold {
			m.setIdleBehavior(rn.disp.pool.(*vPool).pool, rn.gen, v.Instance, worker.IdleBehaviorDrain)
		}
	}
}

type vLimits struct {
	// mode c15
	deadline   time.Duration // D
	stuckAfter time.Duration
	// mode c14: stop observing (no verdict) when nothing changed for idleCap or after totalCap
	idleCap  time.Duration
	totalCap time.Duration
}

// run executes the scenario and returns what was observed.
func (rn *vRunner) run(lim vLimits) *vResult {
	sc, m := rn.sc, rn.m
	res := &vResult{Summary: map[string]interface{}{}}
	oldProcs := runtime.GOMAXPROCS(0)
	if sc.Gomaxprocs > 0 {
		runtime.GOMAXPROCS(sc.Gomaxprocs)
	}
	defer runtime.GOMAXPROCS(oldProcs)
	rand.Seed(sc.Seed) // the stub draws crash/deadlock luck from the global source
	start := time.Now()
	m.t0 = start
	infra := func(format string, args ...interface{}) {
		res.Infra = append(res.Infra, fmt.Sprintf(format, args...))
	}
	if err := rn.startGen(); err != nil {
		infra("VERIF-INFRA: cannot start dispatcher: %v", err)
		return res
	}
	defer rn.cleanup()
	gauge := rn.startGauge()
	defer gauge.Stop()

	// heartbeat: how much CPU this process actually gets (a 1 ms sleeper ticks
	// ~900 times per second on a healthy machine). The stuck rule counts
	// heartbeats, not only seconds, so a starved process cannot be called stuck.
	var hb int64
	hbStop := make(chan struct{})
	defer close(hbStop)
	go func() {
		for {
			select {
			case <-hbStop:
				return
			default:
			}
			time.Sleep(time.Millisecond)
			atomic.AddInt64(&hb, 1)
		}
	}()
	hbAtChange := int64(0)

	pendingEv := append([]vEvent(nil), sc.Events...)
	pendingRs := append([]vRestart(nil), sc.Restarts...)
	quotaSeen := 0
	lastHash := uint64(0)
	lastChange := time.Now()
	lastFault := time.Now()
	holdsReleased := false
	tick := 0
	var last vObs
	liveness := sc.Mode == "c15"

	for {
		time.Sleep(2 * time.Millisecond)
		rn.m.reassertPriorities()
		o := rn.observe()
		last = o
		now := time.Now()
		if o.hash != lastHash {
			lastHash, lastChange = o.hash, now
			hbAtChange = atomic.LoadInt64(&hb)
		}
		m.mu.Lock()
		starts := m.startsOK
		quotaErrs := m.quotaErrs
		lastQuotaErr, lastQuotaGen := m.lastQuotaErr, m.lastQuotaGen
		lastEntriesAt := m.lastEntriesAt
		nviol := len(m.violations)
		m.mu.Unlock()
		m.bugMu.Lock()
		nbugs := len(m.bugs)
		m.bugMu.Unlock()
		if nviol > 0 || nbugs > 0 {
			// let in-flight activity settle for a moment so that the
			// history shows what followed, then stop
			time.Sleep(20 * time.Millisecond)
			break
		}

		trig := func(t vTrigger) bool {
			switch {
			case t.AfterQuota:
				return quotaErrs > quotaSeen
			case t.CtrRunning > 0:
				return o.running[vCtrUUID(t.CtrRunning-1)]
			default:
				return starts >= t.AfterStarts
			}
		}
		// events
		keep := pendingEv[:0]
		for _, ev := range pendingEv {
			if trig(ev.When) {
				rn.fire(ev)
				lastFault = time.Now()
				hbAtChange = atomic.LoadInt64(&hb)
			} else {
				keep = append(keep, ev)
			}
		}
		pendingEv = keep
		// restarts (at most one per tick; the after-quota one repeats)
		for i, rs := range pendingRs {
			if !trig(rs.When) {
				continue
			}
			if rs.When.AfterQuota {
				quotaSeen = quotaErrs
			} else {
				pendingRs = append(pendingRs[:i], pendingRs[i+1:]...)
			}
			if err := rn.stopGen(); err != nil {
				infra("%v", err)
				return rn.finish(res, last, start)
			}
			time.Sleep(time.Duration(rs.DowntimeMs) * time.Millisecond)
			rn.gen++
			if err := rn.startGen(); err != nil {
				infra("VERIF-INFRA: cannot restart dispatcher: %v", err)
				return rn.finish(res, last, start)
			}
			lastFault = time.Now()
			lastChange = lastFault
			hbAtChange = atomic.LoadInt64(&hb)
			break
		}

		// The operator notices an instance that is (still or again) on hold
		// although the hold was released: idle behaviour is persisted in
		// instance tags, tag writes are asynchronous and unordered (pool:
		// `go instance.SetTags()`, stub: applied in another goroutine), so a
		// restarted dispatcher can read a stale "hold".
		if tick++; tick%50 == 0 {
			rn.reassertReleases()
		}
		workDone := o.final+o.held == len(sc.Containers)
		if workDone && !holdsReleased {
			// the operator releases held instances once the work is done
			rn.releaseHolds()
			holdsReleased = true
		}
		if workDone && o.nvm == 0 {
			res.Drained = true
			break
		}
		if !workDone && len(pendingEv) > 0 && now.Sub(lastChange) > 500*time.Millisecond {
			// nothing moves and API-side events are still waiting for
			// progress that will not come (e.g. "after N starts" with
			// fewer starts in total): deliver them now.
			for _, ev := range pendingEv {
				rn.fire(ev)
			}
			pendingEv = nil
			lastFault = time.Now()
			lastChange = lastFault
			hbAtChange = atomic.LoadInt64(&hb)
		}

		if liveness {
			// worker.Pool stays AtQuota for one minute (hard-coded
			// quotaErrorTTL) after a quota error: no progress is owed
			// until that has passed, unless a restart cleared it.
			quiet := lastFault
			if !lastQuotaErr.IsZero() && lastQuotaGen == rn.gen {
				if t := lastQuotaErr.Add(62 * time.Second); t.After(quiet) {
					quiet = t
				}
			}
			ref := lastChange
			if quiet.After(ref) {
				ref = quiet
			}
			// ... and the process must have had the CPU for that long: at
			// least 600 heartbeats per second of the window (nominal ~900)
			hbNeeded := int64(lim.stuckAfter/time.Second) * 600
			if now.Sub(ref) > lim.stuckAfter && atomic.LoadInt64(&hb)-hbAtChange >= hbNeeded {
				// The pool discards the result of every probe that overlaps
				// a sync (updateWorker stamps wkr.updated; probeAndUpdate
				// then "waits for the next probe"), so its design assumes
				// probes to be faster than SyncInterval. On a starved
				// machine (ssh round trips slower than the 10 ms the test
				// configuration uses) no worker ever becomes idle and
				// nothing moves: that is the environment, not the property.
				syncIv := time.Duration(rn.cluster.Containers.CloudVMs.SyncInterval)
				nprobe, med := m.probeLatency(now.Add(-lim.stuckAfter))
				if now.Sub(lastEntriesAt) > 5*time.Second {
					infra("VERIF-INFRA: state unchanged for %s but the scheduler has not read the queue for %s (scheduler goroutine not alive?)", now.Sub(ref), now.Sub(lastEntriesAt))
				} else if nprobe < int(lim.stuckAfter/time.Second)*10 || med > syncIv/2 {
					infra("VERIF-INFRA: state unchanged for %s, but this process is too slow for the configured intervals: the latency gauge completed %d ssh round trips in that time (nominal ~45/s), median %s, SyncInterval %s (the pool discards probe results that overlap a sync) - inconclusive",
						now.Sub(ref).Round(time.Millisecond), nprobe, med, syncIv)
				} else {
					m.mu.Lock()
					m.violate("[stuck] STUCK: observable state (container states, instance set, process tables) unchanged for %s while the scheduler is alive: %d/%d containers final, %d on hold, pending %v, %d instances exist, %d live processes, by state %v",
						now.Sub(ref).Round(time.Millisecond), o.final, len(sc.Containers), o.held, o.pending, o.nvm, o.nlive, o.byState)
					m.mu.Unlock()
				}
				break
			}
			if now.Sub(quiet) > lim.deadline {
				infra("VERIF-INFRA: still progressing at the deadline D=%s after the last injected fault (%d/%d final, %d instances) - inconclusive", lim.deadline, o.final, len(sc.Containers), o.nvm)
				break
			}
		} else {
			if now.Sub(lastChange) > lim.idleCap || now.Sub(start) > lim.totalCap {
				break
			}
		}
	}
	return rn.finish(res, last, start)
}

func (rn *vRunner) cleanup() {
	m := rn.m
	atomic.StoreInt32(&m.done, 1)
	if rn.disp != nil && !m.isDead(rn.gen) {
		rn.stopGen()
	}
	rn.exrMu.Lock()
	exrs := rn.executor
	rn.executor = nil
	rn.exrMu.Unlock()
	for _, exr := range exrs {
		exr.Close()
	}
	for _, svm := range rn.sisWrap.VerifVMs() {
		svm.SSHService.Close()
	}
}

func (rn *vRunner) finish(res *vResult, o vObs, start time.Time) *vResult {
	sc, m := rn.sc, rn.m
	res.WallMs = time.Since(start).Milliseconds()
	m.bugMu.Lock()
	bugs := append([]string(nil), m.bugs...)
	res.Infra = append(res.Infra, m.harnessPanics...)
	m.bugMu.Unlock()
	nprobe, med := m.probeLatency(time.Time{})
	m.mu.Lock()
	defer m.mu.Unlock()
	res.ProbeMedianUs = med.Microseconds()
	_ = nprobe
	for _, b := range bugs {
		// the stub's own detector: a crunch-run found its slot in the VM's
		// process table taken over by another pid, i.e. a second process for
		// the same container was started on the same VM while it was alive
		if strings.Contains(b, "exiting, running[") {
			m.violate("[excl] two live crunch-run processes for one container on the same VM (reported by the stub VM): %s", b)
		} else {
			res.Infra = append(res.Infra, "VERIF-INFRA: stub reported: "+b)
		}
	}
	res.Violations = append(res.Violations, m.violations...)
	res.Infra = append(res.Infra, m.infra...)

	crashes := atomic.LoadInt64(&m.crashes)
	classes := map[string]int{}
	neverBoots, brokenTold := 0, 0
	for _, info := range m.vmByOrd {
		classes[info.plan.Class]++
		if info.plan.NeverBoots {
			neverBoots++
		}
		if len(info.brokenTold) > 0 {
			brokenTold++
		}
	}
	exitedEarly := 0 // processes that ended without the container being final: restarts of the same container
	multi := 0
	for _, tr := range m.ctrs {
		if tr.starts > 1 {
			multi++
		}
		exitedEarly += tr.starts
	}
	res.Summary = map[string]interface{}{
		"containers": len(sc.Containers), "vms_created": len(m.vmByOrd), "starts": m.startsOK, "detaches": m.detachTotal,
		"kills": m.killsSeen, "crashes_after_running": crashes, "lock_fails": m.lockFails, "restarts_with_live_procs": rn.restarts,
		"generations": rn.gen + 1, "excused_overlaps": m.excused, "quota_errors": m.quotaErrs, "vm_classes": classes,
		"containers_started_more_than_once": multi, "final": o.final, "held": o.held, "instances_left": o.nvm, "wall_ms": res.WallMs,
		"events": len(m.events), "by_state": o.byState, "probe_median_us": med.Microseconds(),
	}
	lab := func(cond bool, l string) {
		if cond {
			res.Labels = append(res.Labels, l)
		}
	}
	lab(true, fmt.Sprintf("gens=%d", rn.gen+1))
	lab(rn.restarts > 0, "restart-with-live-procs")
	lab(crashes > 0, "crash-after-running")
	lab(multi > 0, "container-restarted")
	lab(m.lockFails > 0, "lock-call-failed")
	lab(neverBoots > 0, "vm-never-boots")
	lab(brokenTold > 0, "vm-reported-broken")
	lab(m.quotaErrs > 0, "quota-error")
	lab(rn.sc.HoldRelease > 0, "hold-release-queued")
	lab(sc.SlowQuota && m.quotaErrs > 0, "quota-waited-out")
	lab(m.killsSeen > 0, "kill-delivered")
	lab(m.excused > 0, "excused-inherited-overlap")
	lab(res.Drained, "drained")
	lab(!res.Drained, "not-drained")
	lab(sc.Gomaxprocs <= 2, "gomaxprocs<=2")
	lab(len(sc.Containers) >= 200, "n>=200")
	lab(len(sc.Containers) < 50, "n<50")
	lab(sc.DestroyErrRate >= 0.3, "destroy-err>=0.3")
	for _, ev := range m.events {
		if strings.HasPrefix(ev.Kind, "mgmt-") {
			lab(true, "mgmt-api-used")
			break
		}
	}
	for _, c := range sc.Containers {
		if c.Behaviour == "unkillable" {
			lab(true, "has-unkillable")
			break
		}
	}
	if sc.Mode == "c15" {
		res.Nontrivial = rn.gen > 0 || neverBoots > 0 || crashes > 0
	} else {
		res.Nontrivial = multi > 0 || m.lockFails > 0 || rn.restarts > 0
	}
	return res
}

// writeArtifact saves scenario + event history + dispatcher log tail.
func (rn *vRunner) writeArtifact(res *vResult, name string) string {
	m := rn.m
	dir := os.Getenv("VERIF_WORK")
	if dir == "" {
		dir = os.TempDir()
	}
	path := filepath.Join(dir, name)
	m.mu.Lock()
	evs := m.events
	if len(evs) > 60000 {
		evs = evs[len(evs)-60000:]
	}
	art := map[string]interface{}{
		"Scenario":   rn.sc,
		"Violations": res.Violations,
		"Infra":      res.Infra,
		"Summary":    res.Summary,
		"Events":     evs,
		"LogTail":    rn.ring.Dump(),
	}
	buf, err := json.Marshal(art)
	m.mu.Unlock()
	if err != nil {
		buf, _ = json.Marshal(map[string]interface{}{"Scenario": rn.sc, "Violations": res.Violations, "error": err.Error()})
	}
	var out bytes.Buffer
	if json.Indent(&out, buf, "", " ") == nil {
		buf = out.Bytes()
	}
	ioutil.WriteFile(path, buf, 0644)
	return path
}
