package dispatchcloud

// C14(c)/C15 end-to-end monitor: wrappers around the stub cloud, the stub
// VMs' SSH exec entry point, the container queue and the worker pool, and the
// safety checks evaluated on what those wrappers see.
//
// Lock order: mgmtMu -> (pool/stub locks).  m.mu is a leaf lock: nothing that
// can block on a pool/stub lock is called while holding it.  Callbacks that
// the stub invokes with a StubVM locked (Bugf, CrashRunningContainer) only
// touch atomics / m.bugMu.

import (
	"bytes"
	"errors"
	"fmt"
	"io"
	"io/ioutil"
	"math/rand"
	"regexp"
	"runtime/debug"
	"strings"
	"sync"
	"sync/atomic"
	"time"

	"git.arvados.org/arvados.git/lib/cloud"
	"git.arvados.org/arvados.git/lib/dispatchcloud/container"
	"git.arvados.org/arvados.git/lib/dispatchcloud/test"
	"git.arvados.org/arvados.git/lib/dispatchcloud/worker"
	"git.arvados.org/arvados.git/sdk/go/arvados"
	"golang.org/x/crypto/ssh"
)

type vEventRec struct {
	Seq  int64
	Ms   float64 // since scenario start (information only)
	Gen  int
	Kind string
	VM   string `json:",omitempty"`
	UUID string `json:",omitempty"`
	Info string `json:",omitempty"`
}

type vProcRef struct {
	VM  cloud.InstanceID
	PID int64
}

type vInstView struct {
	State string
	Idle  string
	Type  string
}

type vDecision struct {
	seq     int64
	gen     int
	uuid    string
	it      string
	pre     map[cloud.InstanceID]vInstView
	result  int  // -1 pending, 0 refused, 1 accepted
	claimed bool // a pool-side --detach call has been attributed to it
	// sequence number at which the scheduler last read pool.Running() before
	// this decision: what the pool learned later could not influence it
	runningSeq int64
}

type vVMInfo struct {
	svm     *test.StubVM
	id      cloud.InstanceID
	ord     int
	plan    vVMPlan
	created time.Time
	// per generation: boot probe answered 0 / --list answered 0
	bootOK map[int]bool
	listOK map[int]bool
	// generation -> seq of the first Destroy() call issued by that generation
	destroyCalled map[int]int64
	brokenTold    map[int]int64 // generation -> seq of first --list answer containing "broken"
}

type vCtrTrack struct {
	idx int
	// there was a moment with state=Locked and priority>0 since the previous
	// crunch-run --detach for this container arrived (or since the beginning)
	lockedSince bool
	// Weaker pair for the same period, used together: the container was seen
	// Locked, and its priority was seen >0, but not necessarily at the same
	// moment. test.Queue's Lock() does not refresh the cached priority the
	// way the real container.Queue does (from the lock response), so a
	// priority that drops to 0 while the lock call is in flight is invisible
	// to the scheduler until the next Update(): starting such a container is
	// an artefact of the stub, not of the code under test (lead, after a
	// thorough-tier false alarm).
	lockSeen    bool
	prioPosSeen bool
	detaches    int
	starts      int // detaches answered with exit status 0
	kills       int
	crashed     int
}

type vMonitor struct {
	wantPrio map[string]int64 // API-side priority last set by a scenario event (see reassertPriorities)
	sc       *vScenario
	t0       time.Time
	queue    *test.Queue
	sd       *test.StubDriver

	mgmtMu sync.Mutex // serialises management-API calls with StartContainer decisions
	qmu    sync.Mutex // serialises queue writes by the dispatcher / by the API-side events

	mu         sync.Mutex
	seq        int64
	events     []vEventRec
	violations []string
	infra      []string
	curGen     int
	deadGen    int32 // generations <= deadGen are dead (atomic)
	genStart   map[int]time.Time
	genStartSq map[int]int64
	vms        map[cloud.InstanceID]*vVMInfo
	vmByOrd    []*vVMInfo
	ctrs       map[string]*vCtrTrack
	decisions  map[string]*vDecision // latest decision per container (current generation)
	// processes alive when the previous generation died and not yet reported
	// to the current generation by a successful --list of their VM
	inherited map[string]map[vProcRef]bool
	// scheduler I/O of the current generation
	lastEntries    map[string]container.QueueEnt
	lastRunning    map[string]time.Time
	lastRunningSeq int64                         // m.seq when lastRunning was read
	ackSeq         map[string]map[vProcRef]int64 // when an inherited process was first shown to (or hidden from) the current generation by a --list
	lastEntriesAt  time.Time
	entriesCalls   int64
	createCalls    int
	quotaErrs      int
	lastQuotaErr   time.Time
	lastQuotaGen   int
	startsOK       int
	detachTotal    int
	killsSeen      int
	excused        int
	restartsAlive  int // restarts that happened while >=1 crunch-run was alive
	lockFails      int
	heldNow        map[cloud.InstanceID]bool
	intended       map[cloud.InstanceID]worker.IdleBehavior // what the operator last asked for
	// pool-side view of "crunch-run --detach" calls that have not returned to
	// the pool yet (key vm/uuid) and the StartContainer decision behind each
	inflight     map[string]int
	inflightDec  map[string]*vDecision
	probeDur     []vProbeDur // ring of recent pool-side --list round trips
	probeDurNext int
	staleLockTO  time.Duration
	bootTO       time.Duration
	rng          *rand.Rand // VM plans beyond the scenario's list; guarded by mu

	bugMu         sync.Mutex
	bugs          []string
	harnessPanics []string
	crashes       int64 // CrashRunningContainer calls
	finished      int64 // ExecuteContainer returns
	done          int32 // scenario over: release hung stub processes
}

var vUUIDRe = regexp.MustCompile(`.{5}-dz642-.{15}`)
var vGenRe = regexp.MustCompile(`^/gen(\d+)/(.*)$`)

func (m *vMonitor) ms() float64 { return float64(time.Since(m.t0).Microseconds()) / 1000 }

// caller holds m.mu
func (m *vMonitor) ev(gen int, kind, vm, uuid, info string) int64 {
	m.seq++
	if len(m.events) < 300000 {
		m.events = append(m.events, vEventRec{Seq: m.seq, Ms: m.ms(), Gen: gen, Kind: kind, VM: vm, UUID: uuid, Info: info})
	}
	return m.seq
}

// caller holds m.mu
func (m *vMonitor) violate(format string, args ...interface{}) {
	s := fmt.Sprintf(format, args...)
	m.ev(m.curGen, "VIOLATION", "", "", s)
	if len(m.violations) < 50 {
		m.violations = append(m.violations, s)
	}
}

// guard recovers a panic of harness code running on a goroutine the harness
// does not own and records it as an infrastructure problem.
func (m *vMonitor) guard(where string, after func()) {
	if r := recover(); r != nil {
		m.bugMu.Lock()
		m.harnessPanics = append(m.harnessPanics, fmt.Sprintf("VERIF-INFRA: panic in %s: %v\n%s", where, r, debug.Stack()))
		m.bugMu.Unlock()
		if after != nil {
			after()
		}
	}
}

func (m *vMonitor) isDead(gen int) bool { return int32(gen) <= atomic.LoadInt32(&m.deadGen) }

// ---------------------------------------------------------------- cloud side

// Every dispatcher generation gets a vInstanceSet view of the same stub
// instance set (upstream's StubDriver would create a new, empty one per call,
// i.e. a restarted dispatcher would find a different cloud).
type vInstanceSet struct {
	m   *vMonitor
	sis *test.StubInstanceSet
	gen int
}

type vQuotaError struct{}

func (vQuotaError) Error() string      { return "verif: injected quota error" }
func (vQuotaError) IsQuotaError() bool { return true }

func (is *vInstanceSet) Create(it arvados.InstanceType, image cloud.ImageID, tags cloud.InstanceTags, cmd cloud.InitCommand, pk ssh.PublicKey) (cloud.Instance, error) {
	m := is.m
	if m.isDead(is.gen) {
		return nil, errors.New("verif: dispatcher generation is dead")
	}
	m.mu.Lock()
	ord := m.createCalls
	m.createCalls++
	quota := false
	for _, q := range m.sc.QuotaAtCreate {
		if q == ord {
			quota = true
		}
	}
	if quota {
		m.quotaErrs++
		m.lastQuotaErr = time.Now()
		m.lastQuotaGen = is.gen
		m.ev(is.gen, "create-quota", "", "", it.Name)
	}
	m.mu.Unlock()
	if quota {
		return nil, vQuotaError{}
	}
	inst, err := is.sis.Create(it, image, tags, cmd, pk)
	m.mu.Lock()
	if err != nil {
		m.ev(is.gen, "create-err", "", "", err.Error())
	} else {
		m.ev(is.gen, "create", string(inst.ID()), "", it.Name)
	}
	m.mu.Unlock()
	if err != nil {
		return nil, err
	}
	return &vInstance{Instance: inst, m: m, gen: is.gen}, nil
}

func (is *vInstanceSet) Instances(tags cloud.InstanceTags) ([]cloud.Instance, error) {
	if is.m.isDead(is.gen) {
		// A dead generation can no longer do anything to the cloud, the VMs
		// or the queue; an empty answer (rather than an error) merely lets its
		// pool finish loading, so that dispatcher.Close() - which the harness
		// calls to reap the goroutines - does not wait forever on
		// CountWorkers() when the restart came before the first listing.
		return nil, nil
	}
	insts, err := is.sis.Instances(tags)
	if err != nil {
		return nil, err
	}
	r := make([]cloud.Instance, len(insts))
	for i, inst := range insts {
		r[i] = &vInstance{Instance: inst, m: is.m, gen: is.gen}
	}
	return r, nil
}

func (is *vInstanceSet) Stop() {}

type vInstance struct {
	cloud.Instance
	m   *vMonitor
	gen int
}

func (vi *vInstance) Destroy() error {
	m := vi.m
	id := vi.Instance.ID()
	m.mu.Lock()
	seq := m.ev(vi.gen, "destroy-call", string(id), "", "")
	if info := m.vms[id]; info != nil {
		if _, ok := info.destroyCalled[vi.gen]; !ok {
			info.destroyCalled[vi.gen] = seq
		}
	}
	m.mu.Unlock()
	err := vi.Instance.Destroy()
	m.mu.Lock()
	if err != nil {
		m.ev(vi.gen, "destroy-err", string(id), "", "")
	} else {
		m.ev(vi.gen, "destroyed", string(id), "", "")
	}
	m.mu.Unlock()
	return err
}

// setupVM is StubDriver.SetupVM. NOTE: called with the StubInstanceSet locked.
func (m *vMonitor) setupVM(svm *test.StubVM) {
	defer m.guard("setupVM", nil)
	m.mu.Lock()
	ord := len(m.vmByOrd)
	plan := m.sc.planFor(ord, m.rng)
	info := &vVMInfo{svm: svm, id: svm.VerifID(), ord: ord, plan: plan, created: time.Now(),
		bootOK: map[int]bool{}, listOK: map[int]bool{}, destroyCalled: map[int]int64{}, brokenTold: map[int]int64{}}
	m.vms[info.id] = info
	m.vmByOrd = append(m.vmByOrd, info)
	m.ev(m.curGen, "vm-setup", string(info.id), "", plan.Class)
	m.mu.Unlock()

	now := time.Now()
	ms := time.Millisecond
	if plan.NeverBoots {
		svm.Boot = now.Add(24 * time.Hour)
	} else {
		svm.Boot = now.Add(time.Duration(plan.BootDelayMs) * ms)
	}
	if plan.BrokenAfterMs >= 0 {
		svm.Broken = now.Add(time.Duration(plan.BrokenAfterMs) * ms)
	}
	if plan.ReportBrokenAfterMs >= 0 {
		svm.ReportBroken = now.Add(time.Duration(plan.ReportBrokenAfterMs) * ms)
	}
	svm.CrunchRunMissing = plan.CrunchRunMissing
	svm.CrunchRunCrashRate = plan.CrashRate
	svm.ArvMountDeadlockRate = plan.DeadlockRate
	svm.CrunchRunDetachDelay = time.Duration(plan.DetachDelayMs) * ms
	svm.ArvMountMaxExitLag = time.Duration(plan.ExitLagMs) * ms
	svm.ExtraCrunchRunArgs = "'--foo' '--extra='\\''args'\\'''"
	svm.ExecuteContainer = func(ctr arvados.Container) int { return m.executeContainer(info, ctr) }
	svm.CrashRunningContainer = func(arvados.Container) { atomic.AddInt64(&m.crashes, 1) }
	inner := svm.SSHService.Exec
	svm.SSHService.Exec = func(env map[string]string, command string, stdin io.Reader, stdout, stderr io.Writer) uint32 {
		return m.exec(info, inner, env, command, stdin, stdout, stderr)
	}
}

// executeContainer is the payload of the fake crunch-run (state is Running).
func (m *vMonitor) executeContainer(info *vVMInfo, ctr arvados.Container) (rc int) {
	defer m.guard("executeContainer", nil)
	defer atomic.AddInt64(&m.finished, 1)
	m.mu.Lock()
	tr := m.ctrs[ctr.UUID]
	m.mu.Unlock()
	if tr == nil {
		return 0
	}
	c := m.sc.Containers[tr.idx]
	switch c.Behaviour {
	case "hang", "unkillable":
		for atomic.LoadInt32(&m.done) == 0 {
			time.Sleep(time.Millisecond)
			if c.Behaviour == "hang" && info.svm.VerifKilling(ctr.UUID) {
				return 1
			}
			if !m.vmExists(info.id) {
				// VM destroyed: the process is gone with it
				return 1
			}
		}
		return 1
	default:
		time.Sleep(time.Duration(c.RunMs) * time.Millisecond)
	}
	return tr.idx & 3
}

func (m *vMonitor) sis() *test.StubInstanceSet {
	sets := m.sd.InstanceSets()
	if len(sets) == 0 {
		return nil
	}
	return sets[0]
}

func (m *vMonitor) vmExists(id cloud.InstanceID) bool {
	for _, svm := range m.sis().VerifVMs() {
		if svm.VerifID() == id {
			return true
		}
	}
	return false
}

// liveProcs returns the live (not exited) processes of uuid on existing VMs.
// Must not be called with m.mu held.
func (m *vMonitor) liveProcs(uuid string) map[vProcRef]bool {
	r := map[vProcRef]bool{}
	for _, svm := range m.sis().VerifVMs() {
		for _, p := range svm.VerifProcs() {
			if p.UUID == uuid && !p.Exited {
				r[vProcRef{svm.VerifID(), p.PID}] = true
			}
		}
	}
	return r
}

func (m *vMonitor) allLiveProcs() map[string]map[vProcRef]bool {
	r := map[string]map[vProcRef]bool{}
	for _, svm := range m.sis().VerifVMs() {
		for _, p := range svm.VerifProcs() {
			if !p.Exited {
				if r[p.UUID] == nil {
					r[p.UUID] = map[vProcRef]bool{}
				}
				r[p.UUID][vProcRef{svm.VerifID(), p.PID}] = true
			}
		}
	}
	return r
}

// exec wraps StubVM.Exec (the VM side of every ssh command).
func (m *vMonitor) exec(info *vVMInfo, inner test.SSHExecFunc, env map[string]string, command string, stdin io.Reader, stdout, stderr io.Writer) (rc uint32) {
	// a panic in harness (or stub) code on this ssh-server goroutine must not
	// look like a dispatcher crash
	defer m.guard("exec wrapper", func() { rc = 255 })
	sub := vGenRe.FindStringSubmatch(command)
	if sub == nil {
		// not issued by a dispatcher of this harness
		return inner(env, command, stdin, stdout, stderr)
	}
	gen := 0
	fmt.Sscanf(sub[1], "%d", &gen)
	cmd := sub[2]
	if m.isDead(gen) {
		// the dispatcher process that wanted to send this is gone: the
		// command never reaches the VM.
		fmt.Fprintln(stderr, "verif: connection lost (dispatcher generation dead)")
		return 255
	}
	vmid := string(info.id)
	if !m.vmExists(info.id) {
		// The cloud has destroyed this instance (test.StubVM keeps serving an
		// established ssh connection after Destroy; a real machine that has
		// been destroyed executes nothing). Thorough-tier false alarm, lead:
		// a late Destroy of the previous generation removed the VM, the pool
		// dropped its worker and restarted the container elsewhere, and the
		// stub still "ran" the first --detach on the destroyed VM.
		m.mu.Lock()
		m.ev(gen, "cmd-on-destroyed-vm", vmid, vUUIDRe.FindString(cmd), "")
		m.mu.Unlock()
		fmt.Fprintln(stderr, "verif: connection lost (instance destroyed)")
		return 255
	}
	switch {
	case cmd == "true":
		rc := inner(env, cmd, stdin, stdout, stderr)
		if rc == 0 {
			m.mu.Lock()
			if !info.bootOK[gen] {
				info.bootOK[gen] = true
				m.ev(gen, "boot-ok", vmid, "", "")
			}
			m.mu.Unlock()
		}
		return rc
	case cmd == "crunch-run --list":
		var buf bytes.Buffer
		rc := inner(env, cmd, stdin, io.MultiWriter(stdout, &buf), stderr)
		if rc == 0 {
			m.listAnswered(info, gen, buf.String())
		}
		return rc
	case strings.HasPrefix(cmd, "crunch-run --kill "):
		uuid := vUUIDRe.FindString(cmd)
		rc := inner(env, cmd, stdin, stdout, stderr)
		m.mu.Lock()
		m.killsSeen++
		if tr := m.ctrs[uuid]; tr != nil {
			tr.kills++
		}
		m.ev(gen, "kill", vmid, uuid, fmt.Sprintf("rc=%d", rc))
		m.mu.Unlock()
		return rc
	case strings.HasPrefix(cmd, "crunch-run --detach "):
		return m.detach(info, gen, inner, env, cmd, stdin, stdout, stderr)
	}
	return inner(env, cmd, stdin, stdout, stderr)
}

func (m *vMonitor) listAnswered(info *vVMInfo, gen int, out string) {
	listed := map[string]bool{}
	broken := false
	for _, line := range strings.Split(out, "\n") {
		switch {
		case line == "":
		case line == "broken":
			broken = true
		case !strings.Contains(line, " "):
			listed[line] = true
		}
	}
	m.mu.Lock()
	defer m.mu.Unlock()
	if m.isDead(gen) || gen != m.curGen {
		return
	}
	if !info.listOK[gen] {
		info.listOK[gen] = true
		m.ev(gen, "list-ok", string(info.id), "", "")
	}
	if broken {
		if _, ok := info.brokenTold[gen]; !ok {
			info.brokenTold[gen] = m.ev(gen, "list-broken", string(info.id), "", "")
		}
	}
	// inherited processes on this VM: a successful --list either names them
	// (the pool now knows) or shows they are gone/stale; either way the
	// "dispatcher cannot know" excuse ends for this VM.
	for uuid, refs := range m.inherited {
		for ref := range refs {
			if ref.VM == info.id {
				delete(refs, ref)
				seq := m.ev(gen, "inherited-ack", string(info.id), uuid, fmt.Sprintf("listed=%v", listed[uuid]))
				if m.ackSeq == nil {
					m.ackSeq = map[string]map[vProcRef]int64{}
				}
				if m.ackSeq[uuid] == nil {
					m.ackSeq[uuid] = map[vProcRef]int64{}
				}
				m.ackSeq[uuid][ref] = seq
			}
		}
		if len(refs) == 0 {
			delete(m.inherited, uuid)
		}
	}
}

func (m *vMonitor) dbState(uuid string) (string, int64) {
	c, _ := m.queue.VerifGetDB(uuid)
	return c.State, c.Priority
}

// detach handles "crunch-run --detach ..." arriving at a VM: the moment a
// crunch-run process may come into existence.
func (m *vMonitor) detach(info *vVMInfo, gen int, inner test.SSHExecFunc, env map[string]string, cmd string, stdin io.Reader, stdout, stderr io.Writer) uint32 {
	uuid := vUUIDRe.FindString(cmd)
	stdinData, _ := ioutil.ReadAll(stdin)
	vmid := string(info.id)
	// test.StubVM never clears its killing[uuid] flag: once a container's
	// process has been signalled on a VM, every later crunch-run for the same
	// container on that VM exits before it sets state=Running, for ever. A
	// real crunch-run has no such memory. Without this, a container whose
	// first process was killed (e.g. while it was re-queued) and which is
	// then started again on the same, only remaining instance loops
	// start -> early exit -> requeue thousands of times (seen as "still
	// progressing at the deadline" by the lead).
	info.svm.VerifClearKilling(uuid)

	// queue state, atomically w.r.t. dispatcher/API writes
	m.qmu.Lock()
	st, prio := m.dbState(uuid)
	m.mu.Lock()
	tr := m.ctrs[uuid]
	hadLocked := false
	if tr != nil {
		hadLocked = tr.lockedSince || (st == "Locked" && prio > 0) || ((tr.lockSeen || st == "Locked") && (tr.prioPosSeen || prio > 0))
		// period for the next detach starts now
		tr.lockedSince = st == "Locked" && prio > 0
		tr.lockSeen = st == "Locked"
		tr.prioPosSeen = prio > 0
		tr.detaches++
	}
	m.detachTotal++
	seq := m.ev(gen, "detach", vmid, uuid, fmt.Sprintf("state=%s prio=%d", st, prio))
	// the decision this command belongs to: noted by the pool-side executor
	// wrapper when the pool issued the command for this very instance
	dec := m.inflightDec[vmid+"/"+uuid]
	anyDecision := m.decisions[uuid] != nil
	bootOK, listOK := info.bootOK[gen], info.listOK[gen]
	// processes of this container the dispatcher could not know about when it
	// issued this command (the "inherited" set shrinks as VMs answer --list;
	// an answer that arrives while this command is in flight must not turn an
	// excusable overlap into a violation - lead, after a thorough-tier false alarm)
	inhAtArrival := map[vProcRef]bool{}
	for ref := range m.inherited[uuid] {
		inhAtArrival[ref] = true
	}
	m.mu.Unlock()
	m.qmu.Unlock()

	before := m.liveProcs(uuid)

	// While the stub handles the command, watch for the new process to appear
	// and then look at the other VMs again: a process seen alive (same pid)
	// both before the command and after the new one exists was alive at the
	// moment of creation.
	type overlapResult struct {
		newPID  int64
		overlap []vProcRef
	}
	resCh := make(chan overlapResult, 1)
	stop := make(chan struct{})
	go func() {
		var res overlapResult
		defer func() { resCh <- res }()
		defer m.guard("detach watcher", nil)
		for {
			for _, p := range info.svm.VerifProcs() {
				if p.UUID == uuid && !p.Exited && !before[vProcRef{info.id, p.PID}] {
					res.newPID = p.PID
				}
			}
			if res.newPID != 0 {
				after := m.liveProcs(uuid)
				for ref := range before {
					if ref.VM != info.id && after[ref] {
						res.overlap = append(res.overlap, ref)
					}
				}
				return
			}
			select {
			case <-stop:
				// one last look (the stub inserts the process before it
				// answers, so if it exists it is visible now)
				for _, p := range info.svm.VerifProcs() {
					if p.UUID == uuid && !before[vProcRef{info.id, p.PID}] {
						res.newPID = p.PID
					}
				}
				return
			default:
				time.Sleep(50 * time.Microsecond)
			}
		}
	}()
	rc := inner(env, cmd, bytes.NewReader(stdinData), stdout, stderr)
	close(stop)
	res := <-resCh
	vmGone := !m.vmExists(info.id) // not under m.mu: setupVM takes m.mu with the instance set locked

	m.mu.Lock()
	defer m.mu.Unlock()
	m.ev(gen, "detach-done", vmid, uuid, fmt.Sprintf("rc=%d newpid=%d", rc, res.newPID))
	if rc != 0 {
		// the stub refused (booting / broken / no crunch-run): no process
		return rc
	}
	if vmGone {
		// the instance was destroyed while the command was being handled:
		// whatever the stub created went away with the machine
		m.ev(gen, "detach-on-destroyed-vm", vmid, uuid, "")
		return rc
	}
	m.startsOK++
	if tr != nil {
		tr.starts++
	}
	if gen != m.curGen || m.isDead(gen) {
		// The command got through just before its generation died and the
		// process came into being around the restart: for the next
		// generation it is a process left over by its predecessor.
		if res.newPID != 0 {
			if m.inherited[uuid] == nil {
				m.inherited[uuid] = map[vProcRef]bool{}
			}
			m.inherited[uuid][vProcRef{info.id, res.newPID}] = true
		}
		return rc
	}

	// --- at most one live process per container
	for _, ref := range res.overlap {
		// The scheduler decides with the pool.Running() answer it read at the
		// beginning of its pass. If the --list that revealed an inherited
		// process to the pool arrived after that read, the decision could
		// not take it into account (lead, after a thorough-tier false alarm:
		// the "ack" came 3 ms before the --detach of a pass that had started
		// 6 ms earlier).
		ackedAfterSnapshot := false
		d2 := dec
		if d2 == nil {
			d2 = m.decisions[uuid]
		}
		if a, ok := m.ackSeq[uuid][ref]; ok && d2 != nil && a > d2.runningSeq {
			ackedAfterSnapshot = true
		}
		if m.inherited[uuid][ref] || inhAtArrival[ref] || ackedAfterSnapshot {
			// Process left over from before the restart on a VM that has
			// not answered a --list of this generation yet: the
			// dispatcher cannot know about it. By design it gives up
			// waiting after StaleLockTimeout, or when the instance's boot
			// timeout shuts the worker down.
			wait := m.staleLockTO
			if m.bootTO < wait {
				wait = m.bootTO
			}
			if el := time.Since(m.genStart[gen]); el >= wait {
				m.excused++
				m.ev(gen, "excused-overlap", string(ref.VM), uuid, fmt.Sprintf("pid=%d elapsed=%s", ref.PID, el))
				continue
			}
		}
		m.violate("[excl] two live crunch-run processes for %s: pid %d on %s was alive when --detach (seq %d, gen %d) created pid %d on %s",
			uuid, ref.PID, ref.VM, seq, gen, res.newPID, vmid)
	}

	// --- only for a container that has been Locked with priority>0
	if tr != nil && !hadLocked {
		m.violate("[excl] crunch-run started for %s on %s (seq %d) although the container was never Locked with priority>0 since its previous start (now state=%s priority=%d)",
			uuid, vmid, seq, st, prio)
	}

	// --- never on an instance that (for this dispatcher) has not booted
	if !bootOK || !listOK {
		m.violate("[inst] crunch-run --detach for %s arrived at %s (seq %d, gen %d) before that instance answered a boot probe (%v) and a --list (%v) of this dispatcher",
			uuid, vmid, seq, gen, bootOK, listOK)
	}

	// --- decision-level checks
	if dec == nil || dec.gen != gen {
		if !anyDecision {
			m.violate("[excl] crunch-run --detach for %s at %s (seq %d, gen %d) without a StartContainer decision of that dispatcher", uuid, vmid, seq, gen)
		}
		return rc
	}
	if dseq, ok := info.destroyCalled[gen]; ok && dseq < dec.seq {
		m.violate("[inst] container %s started on %s (decision seq %d) after the dispatcher had begun destroying that instance (seq %d)", uuid, vmid, dec.seq, dseq)
	}
	if v, ok := dec.pre[info.id]; ok {
		if v.Idle != string(worker.IdleBehaviorRun) {
			m.violate("[inst] container %s started on %s (decision seq %d) whose idle behaviour was %q just before the decision", uuid, vmid, dec.seq, v.Idle)
		}
		if v.State == "shutdown" {
			m.violate("[inst] container %s started on %s (decision seq %d) which was in state shutdown just before the decision", uuid, vmid, dec.seq)
		}
	}
	return rc
}

// ---------------------------------------------------------------- queue side

type vQueue struct {
	m   *vMonitor
	q   *test.Queue
	gen int
}

var errGenDead = errors.New("verif: dispatcher generation is dead")

func (vq *vQueue) Entries() (map[string]container.QueueEnt, time.Time) {
	ents, t := vq.q.Entries()
	m := vq.m
	m.mu.Lock()
	if vq.gen == m.curGen {
		m.lastEntries = ents
		m.lastEntriesAt = time.Now()
		m.entriesCalls++
	}
	m.mu.Unlock()
	// hand the scheduler its own copy
	cp := make(map[string]container.QueueEnt, len(ents))
	for k, v := range ents {
		cp[k] = v
	}
	return cp, t
}

func (vq *vQueue) write(op, uuid string, f func(string) error) error {
	m := vq.m
	if m.isDead(vq.gen) {
		return errGenDead
	}
	m.qmu.Lock()
	defer m.qmu.Unlock()
	if m.isDead(vq.gen) {
		return errGenDead
	}
	// test.Queue applies Lock/Unlock to its cached entry and then overwrites
	// the "database" record without looking at it, so a dispatcher Lock based on
	// a stale cache would turn an API-side Cancelled back into Locked. The real
	// API server refuses such a transition; do the same here.
	var err error
	if cur, _ := m.dbState(uuid); (op == "lock" && cur != "Queued") || (op == "unlock" && cur != "Locked") {
		err = fmt.Errorf("verif: API refuses %s: container state is %s", op, cur)
	} else {
		err = f(uuid)
	}
	st, prio := m.dbState(uuid)
	m.mu.Lock()
	info := fmt.Sprintf("-> %s prio=%d", st, prio)
	if err != nil {
		info = "err: " + err.Error()
		if op == "lock" {
			m.lockFails++
		}
	}
	m.ev(vq.gen, "q-"+op, "", uuid, info)
	if tr := m.ctrs[uuid]; tr != nil && err == nil && st == "Locked" && prio > 0 {
		tr.lockedSince = true
	}
	if tr := m.ctrs[uuid]; tr != nil && err == nil && st == "Locked" {
		tr.lockSeen = true
	}
	m.mu.Unlock()
	return err
}

func (vq *vQueue) Lock(uuid string) error   { return vq.write("lock", uuid, vq.q.Lock) }
func (vq *vQueue) Unlock(uuid string) error { return vq.write("unlock", uuid, vq.q.Unlock) }
func (vq *vQueue) Cancel(uuid string) error { return vq.write("cancel", uuid, vq.q.Cancel) }
func (vq *vQueue) Forget(uuid string) {
	if !vq.m.isDead(vq.gen) {
		vq.q.Forget(uuid)
	}
}
func (vq *vQueue) Get(uuid string) (arvados.Container, bool) { return vq.q.Get(uuid) }
func (vq *vQueue) Subscribe() <-chan struct{}                { return vq.q.Subscribe() }
func (vq *vQueue) Unsubscribe(ch <-chan struct{})            { vq.q.Unsubscribe(ch) }
func (vq *vQueue) Update() error {
	if vq.m.isDead(vq.gen) {
		return errGenDead
	}
	return vq.q.Update()
}

// API-side writes (somebody other than the dispatcher)
func (m *vMonitor) apiCancel(uuid string) {
	m.qmu.Lock()
	defer m.qmu.Unlock()
	ok := m.queue.VerifCancel(uuid)
	m.mu.Lock()
	m.ev(m.curGen, "api-cancel", "", uuid, fmt.Sprintf("ok=%v", ok))
	m.mu.Unlock()
}

// reassertPriorities re-applies API-side priority changes that the stub lost:
// the fake crunch-run of test.StubVM fetches the container record when
// "--detach" arrives and later writes the whole record back with
// queue.Notify(), which silently undoes a priority change made in between.
// A real API server keeps the priority. (lead: this produced a false STUCK
// report - a "hang" container whose priority-0 event was overwritten had no
// reason to be killed.)
func (m *vMonitor) reassertPriorities() {
	m.qmu.Lock()
	defer m.qmu.Unlock()
	m.mu.Lock()
	want := make(map[string]int64, len(m.wantPrio))
	for u, p := range m.wantPrio {
		want[u] = p
	}
	m.mu.Unlock()
	for u, p := range want {
		if c, ok := m.queue.VerifGetDB(u); ok && c.Priority != p && c.State != "Complete" && c.State != "Cancelled" {
			ok := m.queue.VerifSetPriority(u, p)
			m.mu.Lock()
			m.ev(m.curGen, "api-prio-reasserted", "", u, fmt.Sprintf("prio=%d (stub had reverted it to %d) ok=%v state=%s", p, c.Priority, ok, c.State))
			m.mu.Unlock()
		}
	}
}

func (m *vMonitor) apiPriority(uuid string, prio int64) {
	m.qmu.Lock()
	defer m.qmu.Unlock()
	m.mu.Lock()
	if m.wantPrio == nil {
		m.wantPrio = map[string]int64{}
	}
	m.wantPrio[uuid] = prio
	m.mu.Unlock()
	ok := m.queue.VerifSetPriority(uuid, prio)
	st, _ := m.dbState(uuid)
	m.mu.Lock()
	m.ev(m.curGen, "api-prio", "", uuid, fmt.Sprintf("prio=%d ok=%v state=%s", prio, ok, st))
	if tr := m.ctrs[uuid]; tr != nil && ok && prio > 0 && st == "Locked" {
		tr.lockedSince = true
	}
	if tr := m.ctrs[uuid]; tr != nil && ok && prio > 0 {
		tr.prioPosSeen = true
	}
	m.mu.Unlock()
}

// ---------------------------------------------------------------- pool side

type vPool struct {
	pool
	m   *vMonitor
	gen int
}

func (p *vPool) Running() map[string]time.Time {
	r := p.pool.Running()
	m := p.m
	m.mu.Lock()
	if p.gen == m.curGen {
		cp := make(map[string]time.Time, len(r))
		for k, v := range r {
			cp[k] = v
		}
		m.lastRunning = cp
		m.lastRunningSeq = m.seq
	}
	m.mu.Unlock()
	return r
}

func (p *vPool) StartContainer(it arvados.InstanceType, ctr arvados.Container) bool {
	m := p.m
	m.mgmtMu.Lock()
	defer m.mgmtMu.Unlock()
	pre := map[cloud.InstanceID]vInstView{}
	for _, v := range p.pool.Instances() {
		pre[v.Instance] = vInstView{State: v.WorkerState, Idle: string(v.IdleBehavior), Type: v.ArvadosInstanceType}
	}
	m.mu.Lock()
	var d *vDecision
	if p.gen == m.curGen && !m.isDead(p.gen) {
		seq := m.ev(p.gen, "start-decision", "", ctr.UUID, fmt.Sprintf("type=%s argstate=%s argprio=%d", it.Name, ctr.State, ctr.Priority))
		d = &vDecision{seq: seq, gen: p.gen, uuid: ctr.UUID, it: it.Name, pre: pre, result: -1, runningSeq: m.lastRunningSeq}
		m.decisions[ctr.UUID] = d
		if ctr.State != arvados.ContainerStateLocked || ctr.Priority < 1 {
			m.violate("[excl] StartContainer(%s) called with a container record in state %s priority %d (seq %d)", ctr.UUID, ctr.State, ctr.Priority, seq)
		}
		if ent, ok := m.lastEntries[ctr.UUID]; !ok {
			m.violate("[excl] StartContainer(%s) (seq %d): container was not in the queue snapshot the scheduler last read", ctr.UUID, seq)
		} else if ent.Container.State != arvados.ContainerStateLocked || ent.Container.Priority < 1 {
			m.violate("[excl] StartContainer(%s) (seq %d): in the queue snapshot the scheduler last read the container was %s with priority %d",
				ctr.UUID, seq, ent.Container.State, ent.Container.Priority)
		}
		if t, ok := m.lastRunning[ctr.UUID]; ok && t.IsZero() {
			m.violate("[excl] StartContainer(%s) (seq %d): the pool's Running() answer the scheduler last read listed this container as not exited", ctr.UUID, seq)
		}
	}
	m.mu.Unlock()
	ok := p.pool.StartContainer(it, ctr)
	if d != nil {
		m.mu.Lock()
		if ok {
			d.result = 1
		} else {
			d.result = 0
		}
		m.mu.Unlock()
	}
	return ok
}

func (p *vPool) KillContainer(uuid, reason string) bool {
	r := p.pool.KillContainer(uuid, reason)
	if r {
		m := p.m
		m.mu.Lock()
		m.ev(p.gen, "pool-kill", "", uuid, reason)
		m.mu.Unlock()
	}
	return r
}

// management API (what apiInstanceHold/Drain/Run do)
func (m *vMonitor) setIdleBehavior(p pool, gen int, id cloud.InstanceID, ib worker.IdleBehavior) {
	m.mgmtMu.Lock()
	defer m.mgmtMu.Unlock()
	err := p.SetIdleBehavior(id, ib)
	m.mu.Lock()
	defer m.mu.Unlock()
	m.ev(gen, "mgmt-"+string(ib), string(id), "", fmt.Sprintf("err=%v", err))
	if err == nil {
		m.intended[id] = ib
		if ib == worker.IdleBehaviorHold {
			m.heldNow[id] = true
		} else {
			delete(m.heldNow, id)
		}
	}
}
