package dispatchcloud

// C14(c)/C15 end-to-end scenarios: types and PRNG-driven generator.
//
// A scenario is plain data (JSON-able): it is the replay artifact. Scenarios are
// generated from a math/rand source seeded by VERIF_SEED_EFF (rapid is not used
// here: one scenario costs seconds of wall time and is schedule dependent, so
// rapid's shrinking/replay machinery does not apply).

import (
	"math"
	"math/rand"
)

type vCtr struct {
	Priority int64
	RAMGiB   int
	VCPUs    int
	// "normal": runs RunMs then completes; "hang": blocks until it receives a
	// signal (crunch-run --kill); "unkillable": blocks until its VM is destroyed.
	Behaviour string
	RunMs     int
}

type vVMPlan struct {
	Class               string // label only
	BootDelayMs         int
	NeverBoots          bool
	BrokenAfterMs       int // <0: never
	CrunchRunMissing    bool
	ReportBrokenAfterMs int // <0: never
	CrashRate           float64
	DeadlockRate        float64
	DetachDelayMs       int
	ExitLagMs           int
}

// vTrigger says when an event fires: after N successful crunch-run starts were
// observed (progress based, so machine load cannot make events miss the run),
// or as soon as container Ctr is seen Running, or right after the first
// injected quota error.
type vTrigger struct {
	AfterStarts int  `json:",omitempty"`
	CtrRunning  int  `json:",omitempty"` // 1-based container index; 0 = unused
	AfterQuota  bool `json:",omitempty"`
}

type vEvent struct {
	When vTrigger
	// cancel | prio | hold | drain | run
	Kind string
	Ctr  int   `json:",omitempty"` // 1-based
	Prio int64 `json:",omitempty"`
	VM   int   `json:",omitempty"` // creation ordinal (1-based)
}

type vRestart struct {
	When       vTrigger
	DowntimeMs int
}

type vScenario struct {
	Seed       int64
	Mode       string // "c14": no premise on the cloud; "c15": cloud eventually healthy
	Gomaxprocs int
	Containers []vCtr
	VMs        []vVMPlan // fault plan by creation ordinal
	// In mode c15 VMs created after the plan is exhausted are healthy; in mode
	// c14 the plan is reused cyclically.
	DestroyErrRate     float64
	MinCreateGapUs     int
	MinListGapUs       int
	QuotaAtCreate      []int // ordinals (0-based) of Create calls answered with a quota error
	SlowQuota          bool  // quota error without a following restart (60 s AtQuota)
	Events             []vEvent
	Restarts           []vRestart
	StaleLockTimeoutMs int
	TimeScale          int // multiplies upstream's test timeouts
	// number of containers with a generated "priority 0 while still Queued,
	// later priority>0" history (see the end of vGenScenario); label material
	HoldRelease int `json:",omitempty"`
}

func vHealthyPlan(r *rand.Rand) vVMPlan {
	return vVMPlan{
		Class:               "healthy",
		BootDelayMs:         r.Intn(5),
		BrokenAfterMs:       -1,
		ReportBrokenAfterMs: -1,
		CrashRate:           []float64{0, 0, 0.05, 0.1}[r.Intn(4)],
		DeadlockRate:        []float64{0, 0, 0.05, 0.1}[r.Intn(4)],
		DetachDelayMs:       r.Intn(10),
		ExitLagMs:           r.Intn(3),
	}
}

func vGenPlan(r *rand.Rand) vVMPlan {
	p := vHealthyPlan(r)
	switch x := r.Intn(100); {
	case x < 50:
	case x < 58:
		p.Class = "neverboots"
		p.NeverBoots = true
	case x < 65:
		p.Class = "slowboot"
		p.BootDelayMs = 20 + r.Intn(100)
	case x < 75:
		p.Class = "broken"
		p.BrokenAfterMs = r.Intn(90)
	case x < 82:
		p.Class = "norunner"
		p.CrunchRunMissing = true
	case x < 90:
		p.Class = "reportbroken"
		p.ReportBrokenAfterMs = r.Intn(200)
	case x < 95:
		p.Class = "crashy"
		p.CrashRate = 0.5
		p.DeadlockRate = 0.3
	default:
		p.Class = "slowdetach"
		p.DetachDelayMs = 10 + r.Intn(30)
		p.ExitLagMs = 5 + r.Intn(10)
	}
	return p
}

func vLogUniform(r *rand.Rand, lo, hi int) int {
	x := math.Exp(math.Log(float64(lo)) + r.Float64()*(math.Log(float64(hi))-math.Log(float64(lo))))
	n := int(x + 0.5)
	if n < lo {
		n = lo
	}
	if n > hi {
		n = hi
	}
	return n
}

// vGenScenario draws one scenario. maxN bounds the container count (tier
// dependent); allowSlowQuota permits the 60-second AtQuota case.
func vGenScenario(seed int64, mode string, maxN int, allowSlowQuota bool) *vScenario {
	r := rand.New(rand.NewSource(seed))
	sc := &vScenario{Seed: seed, Mode: mode}
	switch r.Intn(4) {
	case 0:
		sc.Gomaxprocs = 1 + r.Intn(2)
	default:
		sc.Gomaxprocs = 4
	}
	n := vLogUniform(r, 20, maxN)
	if n > 120 {
		// hundreds of ssh servers and clients on one or two threads only
		// measure how starved the process is
		sc.Gomaxprocs = 4
	}
	// priorities: a few distinct values so that ties are the rule
	prios := []int64{1, 1, 2, 3, 5, 5, 10, 100, 1000}
	ntypes := 1 + r.Intn(4)
	type size struct{ ram, cpu int }
	sizes := []size{}
	for i := 0; i < ntypes; i++ {
		sizes = append(sizes, size{1 + r.Intn(3), 1 + r.Intn(8)})
	}
	for i := 0; i < n; i++ {
		c := vCtr{Behaviour: "normal", RunMs: r.Intn(30)}
		if r.Intn(100) < 6 {
			c.Priority = 0
		} else {
			c.Priority = prios[r.Intn(len(prios))]
		}
		s := sizes[r.Intn(len(sizes))]
		c.RAMGiB, c.VCPUs = s.ram, s.cpu
		sc.Containers = append(sc.Containers, c)
	}
	nvm := n/3 + 8
	for i := 0; i < nvm; i++ {
		sc.VMs = append(sc.VMs, vGenPlan(r))
	}
	sc.DestroyErrRate = []float64{0, 0.1, 0.1, 0.3, 0.6}[r.Intn(5)]
	sc.MinCreateGapUs = []int{0, 1000, 1000, 3000}[r.Intn(4)]
	sc.MinListGapUs = []int{0, 0, 5000, 20000}[r.Intn(4)]
	sc.StaleLockTimeoutMs = []int{5, 50, 500}[r.Intn(3)]
	sc.TimeScale = []int{1, 1, 1, 2}[r.Intn(4)]

	// hung / unkillable containers, each with an API-side cancel (or hold)
	// once it is seen Running: this is what makes "lingering process is
	// killed" and "unkillable -> drain" observable.
	allowUnkillable := r.Intn(100) < 40
	for i := range sc.Containers {
		if sc.Containers[i].Priority == 0 {
			continue
		}
		x := r.Intn(100)
		if x >= 5 && x < 8 && !allowUnkillable {
			continue
		}
		switch {
		case x < 5:
			sc.Containers[i].Behaviour = "hang"
			kind := "cancel"
			if r.Intn(3) == 0 {
				kind = "prio"
			}
			sc.Events = append(sc.Events, vEvent{When: vTrigger{CtrRunning: i + 1}, Kind: kind, Ctr: i + 1, Prio: 0})
		case x < 8:
			sc.Containers[i].Behaviour = "unkillable"
			sc.Events = append(sc.Events, vEvent{When: vTrigger{CtrRunning: i + 1}, Kind: "cancel", Ctr: i + 1})
		}
	}
	// API-side cancels and priority changes at progress points
	nev := n / 12
	for i := 0; i < nev; i++ {
		ev := vEvent{When: vTrigger{AfterStarts: 1 + r.Intn(n)}, Ctr: 1 + r.Intn(n)}
		k := r.Intn(4)
		if sc.Containers[ev.Ctr-1].Behaviour != "normal" {
			// a process that only ends when signalled needs its cancel/hold
			// to stay in force: no priority changes for those
			k = 0
		}
		switch k {
		case 0:
			ev.Kind = "cancel"
		case 1:
			ev.Kind, ev.Prio = "prio", 0
		default:
			ev.Kind, ev.Prio = "prio", prios[r.Intn(len(prios))]
		}
		sc.Events = append(sc.Events, ev)
	}
	// management API: hold / drain / run on instances. "hold" is an operator
	// override ("never shut this instance down"); if the pool gives up on an
	// unkillable process while its instance is held it only logs a warning, and
	// releasing the hold later does not make it drain the instance (observed,
	// see notes/C15.md). The property does not list operator holds among the
	// faults, so scenarios with unkillable processes use drain only.
	hasUnkillable := false
	for _, c := range sc.Containers {
		hasUnkillable = hasUnkillable || c.Behaviour == "unkillable"
	}
	nmg := r.Intn(4)
	for i := 0; i < nmg; i++ {
		vm := 1 + r.Intn(nvm)
		at := 1 + r.Intn(n)
		kind := []string{"hold", "drain", "hold"}[r.Intn(3)]
		if hasUnkillable {
			kind = "drain"
		}
		sc.Events = append(sc.Events, vEvent{When: vTrigger{AfterStarts: at}, Kind: kind, VM: vm})
		if kind == "hold" {
			rel := []string{"run", "drain"}[r.Intn(2)]
			sc.Events = append(sc.Events, vEvent{When: vTrigger{AfterStarts: at + 1 + r.Intn(10)}, Kind: rel, VM: vm})
		}
	}
	// dispatcher restarts
	switch x := r.Intn(10); {
	case x < 3:
	case x < 8:
		sc.Restarts = append(sc.Restarts, vRestart{When: vTrigger{AfterStarts: 1 + r.Intn(n)}, DowntimeMs: r.Intn(60)})
	default:
		a := 1 + r.Intn(n)
		b := a + 1 + r.Intn(n)
		sc.Restarts = append(sc.Restarts,
			vRestart{When: vTrigger{AfterStarts: a}, DowntimeMs: r.Intn(60)},
			vRestart{When: vTrigger{AfterStarts: b}, DowntimeMs: r.Intn(60)})
	}
	// quota errors. worker.Pool stays AtQuota for a hard-coded minute after
	// one, so normally a restart follows (a new pool starts without the flag);
	// the "slow" variant waits it out and is only drawn where the budget allows.
	if x := r.Intn(100); x < 15 {
		sc.QuotaAtCreate = []int{r.Intn(nvm/2 + 1)}
		if r.Intn(2) == 0 {
			sc.QuotaAtCreate = append(sc.QuotaAtCreate, sc.QuotaAtCreate[0]+1+r.Intn(3))
		}
		sc.Restarts = append(sc.Restarts, vRestart{When: vTrigger{AfterQuota: true}, DowntimeMs: r.Intn(30)})
	} else if allowSlowQuota && x < 22 {
		sc.QuotaAtCreate = []int{r.Intn(nvm/2 + 1)}
		sc.SlowQuota = true
	}
	// Round 3: hold / release of containers that are still Queued (waiting to
	// be locked): priority 0, dropped from the queue by sync(), later a
	// positive priority again - they must still be locked, started and
	// finished. Drawn last so that everything above is unchanged for a given
	// seed. Only "normal" containers (a process that ends on its own).
	//  A: created on hold (priority 0 from the start), released after a starts;
	//  B: held at the very first ticks (0-2 starts observed, most containers are
	//     still Queued or just being locked), released a few starts later;
	//  C: like B, held again and released again.
	npairs := 1 + n/25
	for k := 0; k < npairs; k++ {
		i := r.Intn(n)
		if sc.Containers[i].Behaviour != "normal" {
			continue
		}
		p := prios[r.Intn(len(prios))]
		switch v := r.Intn(4); {
		case v == 0:
			sc.Containers[i].Priority = 0
			sc.Events = append(sc.Events, vEvent{When: vTrigger{AfterStarts: r.Intn(1 + n/2)}, Kind: "prio", Ctr: i + 1, Prio: p})
		default:
			if sc.Containers[i].Priority == 0 {
				sc.Containers[i].Priority = p
			}
			a := r.Intn(3)
			b := a + 1 + r.Intn(10)
			sc.Events = append(sc.Events,
				vEvent{When: vTrigger{AfterStarts: a}, Kind: "prio", Ctr: i + 1, Prio: 0},
				vEvent{When: vTrigger{AfterStarts: b}, Kind: "prio", Ctr: i + 1, Prio: p})
			if v == 3 {
				c := b + 1 + r.Intn(5)
				d := c + 1 + r.Intn(10)
				sc.Events = append(sc.Events,
					vEvent{When: vTrigger{AfterStarts: c}, Kind: "prio", Ctr: i + 1, Prio: 0},
					vEvent{When: vTrigger{AfterStarts: d}, Kind: "prio", Ctr: i + 1, Prio: p})
			}
		}
		sc.HoldRelease++
	}
	return sc
}

func (sc *vScenario) planFor(ord int, r *rand.Rand) vVMPlan {
	// ord is 0-based creation ordinal
	if ord < len(sc.VMs) {
		return sc.VMs[ord]
	}
	if sc.Mode == "c14" && len(sc.VMs) > 0 {
		return sc.VMs[ord%len(sc.VMs)]
	}
	return vHealthyPlan(r)
}
