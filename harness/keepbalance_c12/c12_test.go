package main

// C12 (keep-balance side): the balancer ranks servers for a block in the same
// rendezvous order as the Go client.
//
// N single-mount writable servers; each block has one old replica on the
// reference-LAST server and desired replication k (k = 1..N-1, one block per k:
// the same hash with a different +size, because the rank uses only the hash).
// One real ComputeChangeSets() run; the servers that receive a pull for block
// (hash, k) must be exactly the reference top-k. Over k = 1..N-1 that
// reconstructs the balancer's whole ranking.

import (
	"crypto/md5"
	"fmt"
	"io/ioutil"
	"sort"
	"strings"
	"testing"
	"time"

	"git.arvados.org/arvados.git/sdk/go/arvados"
	"github.com/prometheus/client_golang/prometheus"
	"github.com/sirupsen/logrus"
	"pgregory.net/rapid"
	"verif.local/vcommon/nearmd5"
	"verif.local/vcommon/ref"
	"verif.local/vcommon/stats"
)

const c12alnum = "0123456789abcdefghijklmnopqrstuvwxyz"

func c12Key(uuid string) string {
	if len(uuid) == 27 {
		return uuid[12:]
	}
	return uuid
}

func c12Draw27(t *rapid.T, label string) string {
	var prefix string
	switch rapid.IntRange(0, 3).Draw(t, label+"pfx") {
	case 0:
		prefix = "zzzzz-bi6l4-"
	case 1:
		prefix = rapid.StringOfN(rapid.RuneFrom([]rune(c12alnum)), 5, 5, 5).Draw(t, label+"cl") + "-bi6l4-"
	default:
		prefix = rapid.StringOfN(rapid.RuneFrom([]rune(c12alnum+"-")), 12, 12, 12).Draw(t, label+"p12")
	}
	var suffix string
	switch rapid.IntRange(0, 3).Draw(t, label+"sfx") {
	case 0:
		suffix = fmt.Sprintf("%015x", rapid.IntRange(0, 40).Draw(t, label+"n"))
	default:
		suffix = rapid.StringOfN(rapid.RuneFrom([]rune(c12alnum)), 15, 15, 15).Draw(t, label+"s15")
	}
	return prefix + suffix
}

func c12DrawOther(t *rapid.T, label string) string {
	for {
		var u string
		switch rapid.IntRange(0, 3).Draw(t, label+"kind") {
		case 0:
			u = rapid.StringOfN(rapid.RuneFrom([]rune(c12alnum+"-")), 1, 40, 40).Draw(t, label+"o")
		case 1:
			n := rapid.SampledFrom([]int{26, 28, 15, 12, 13}).Draw(t, label+"len")
			u = rapid.StringOfN(rapid.RuneFrom([]rune(c12alnum+"-")), n, n, n).Draw(t, label+"o")
		case 2:
			u = rapid.StringN(1, 20, 60).Draw(t, label+"o")
		default:
			u = "zzzzz-bi6l4-" + rapid.StringOfN(rapid.RuneFrom([]rune(c12alnum)), 1, 20, 20).Draw(t, label+"o")
		}
		if len(u) != 27 && len(u) > 0 {
			return u
		}
	}
}

func c12Hash(t *rapid.T, label string) string {
	if rapid.IntRange(0, 9).Draw(t, label+"known") == 0 {
		return fmt.Sprintf("%x", md5.Sum([]byte(fmt.Sprintf("%064x", rapid.IntRange(0, 3).Draw(t, label+"k")))))
	}
	return rapid.StringOfN(rapid.RuneFrom([]rune("0123456789abcdef")), 32, 32, 32).Draw(t, label)
}

func TestVerifC12BalancerRanking(t *testing.T) {
	defer stats.Flush()
	logger := logrus.New()
	logger.Out = ioutil.Discard
	rapid.Check(t, func(t *rapid.T) {
		n := rapid.SampledFrom([]int{2, 2, 3, 3, 4, 5, 6, 8, 12, 16, 24, 32}).Draw(t, "n")
		if rapid.IntRange(0, 4).Draw(t, "anyN") == 0 {
			n = rapid.IntRange(2, 32).Draw(t, "nAny")
		}
		mode := rapid.SampledFrom([]int{0, 0, 0, 0, 1, 2, 2}).Draw(t, "uuidMode")
		// hashes first (round 2): the directed near-collisions below are searched
		// for a given hash
		var hashes []string
		seenHash := map[string]bool{}
		var groups []nearmd5.Group
		var dirLabels []string
		plan := rapid.SampledFrom([]string{"", "", "", "", "", "", "search", "search", "search", "pinned"}).Draw(t, "directed")
		if plan == "pinned" {
			g := nearmd5.DrawPinned(t, "dp", mode)
			if err := (nearmd5.PinnedPair{Hash: g.Hash, Hex: g.Hex, A: g.Keys[0], B: g.Keys[1]}).Verify(); err != nil {
				t.Fatalf("VERIF-INFRA: %v", err)
			}
			groups = append(groups, g)
			hashes = append(hashes, g.Hash)
			seenHash[g.Hash] = true
			dirLabels = append(dirLabels, "directed:precomputed-pair-for-balancer-hash")
		}
		nh := rapid.IntRange(1, 3).Draw(t, "nhashes")
		for j := len(hashes); j < nh; j++ {
			h := c12Hash(t, fmt.Sprintf("hash%d", j))
			if !seenHash[h] {
				seenHash[h] = true
				hashes = append(hashes, h)
			}
		}
		if plan == "search" {
			// 2-3 servers whose weights for one of the hashes share their first
			// 4-8 hex digits and differ later
			g := nearmd5.DrawGroup(t, "ds", hashes[rapid.IntRange(0, len(hashes)-1).Draw(t, "dirHash")], mode)
			if len(g.UUIDs) >= 2 && g.Shared < g.Hex {
				t.Fatalf("VERIF-INFRA: near-collision search returned weights %v that share %d < %d hex digits", g.Weights, g.Shared, g.Hex)
			}
			if len(g.UUIDs) >= 2 {
				groups = append(groups, g)
				dirLabels = append(dirLabels, "directed:searched-group")
			} else {
				dirLabels = append(dirLabels, "directed:search-ran-out-of-budget")
			}
		}
		taken := map[string]bool{}
		var uuids []string
		for _, g := range groups {
			for _, u := range g.UUIDs {
				if !taken[c12Key(u)] && !taken["uuid:"+u] {
					taken[c12Key(u)] = true
					taken["uuid:"+u] = true
					uuids = append(uuids, u)
				}
			}
			dirLabels = append(dirLabels, fmt.Sprintf("directed:group-of-%d", len(g.UUIDs)))
			for _, u := range g.UUIDs {
				if len(u) == 27 {
					dirLabels = append(dirLabels, "directed:member-with-27-char-uuid")
				} else {
					dirLabels = append(dirLabels, "directed:member-with-other-length-uuid")
				}
			}
			if stats.WantSample("directed near-collision") {
				stats.Sample("directed near-collision", map[string]interface{}{"hash": g.Hash, "uuids": g.UUIDs, "weights": g.Weights, "shared_hex_digits": g.Shared, "candidates_tried": g.Tried})
			}
		}
		if n < len(uuids) {
			n = len(uuids)
		}
		for i := len(uuids); i < n; i++ {
			var u string
			for tries := 0; ; tries++ {
				if mode == 0 || (mode == 2 && rapid.Bool().Draw(t, fmt.Sprintf("s%dis27", i))) {
					u = c12Draw27(t, fmt.Sprintf("s%d", i))
				} else {
					u = c12DrawOther(t, fmt.Sprintf("s%d", i))
				}
				if !taken[c12Key(u)] && !taken["uuid:"+u] {
					break
				}
				if tries > 100 {
					t.Fatalf("VERIF-INFRA: cannot draw distinct uuid")
				}
			}
			taken[c12Key(u)] = true
			taken["uuid:"+u] = true
			uuids = append(uuids, u)
		}
		if len(groups) > 0 && rapid.Bool().Draw(t, "shuffleSet") {
			uuids = rapid.Permutation(uuids).Draw(t, "setOrder")
		}
		sharedDevIDs := rapid.Bool().Draw(t, "deviceIDs")

		bal := &Balancer{
			Logger:        logger,
			Metrics:       newMetrics(prometheus.NewRegistry()),
			KeepServices:  map[string]*KeepService{},
			BlockStateMap: NewBlockStateMap(),
			lostBlocks:    ioutil.Discard,
		}
		now := time.Now().UnixNano()
		bal.MinMtime = now - 3600*1e9
		mounts := map[string]*KeepMount{}
		for i, u := range uuids {
			srv := &KeepService{
				KeepService: arvados.KeepService{UUID: u, ServiceHost: fmt.Sprintf("keep%d.c12.verif", i), ServicePort: 25107, ServiceType: "disk"},
				ChangeSet:   &ChangeSet{},
			}
			mnt := &KeepMount{
				KeepMount:   arvados.KeepMount{UUID: fmt.Sprintf("zzzzz-nyw5e-%015d", i), Replication: 1},
				KeepService: srv,
			}
			if sharedDevIDs {
				mnt.DeviceID = fmt.Sprintf("dev-%d", i) // distinct devices
			}
			srv.mounts = []*KeepMount{mnt}
			bal.KeepServices[u] = srv
			mounts[u] = mnt
		}

		type blockCase struct {
			hash  string
			k     int
			order []string
		}
		cases := map[arvados.SizedDigest]blockCase{}
		for _, h := range hashes {
			order := ref.RendezvousOrder(h, uuids)
			holder := order[len(order)-1]
			for k := 1; k <= n-1; k++ {
				blkid := arvados.SizedDigest(fmt.Sprintf("%s+%d", h, k))
				bal.BlockStateMap.AddReplicas(mounts[holder], []arvados.KeepServiceIndexEntry{{SizedDigest: blkid, Mtime: now - 30*86400*1e9}})
				bal.BlockStateMap.IncreaseDesired("", nil, k, []arvados.SizedDigest{blkid})
				cases[blkid] = blockCase{h, k, order}
			}
		}

		bal.ComputeChangeSets()

		pulled := map[arvados.SizedDigest]map[string]bool{}
		for u, srv := range bal.KeepServices {
			for _, p := range srv.ChangeSet.Pulls {
				if p.To == nil || p.To.KeepService != srv {
					t.Fatalf("VERIF-INFRA: pull queued on %q targets a mount of another server", u)
				}
				if pulled[p.SizedDigest] == nil {
					pulled[p.SizedDigest] = map[string]bool{}
				}
				pulled[p.SizedDigest][u] = true
			}
		}
		describe := func() string {
			var b strings.Builder
			fmt.Fprintf(&b, "servers (%d):", n)
			for _, u := range uuids {
				fmt.Fprintf(&b, " %q", u)
			}
			return b.String()
		}
		for blkid, bc := range cases {
			want := append([]string(nil), bc.order[:bc.k]...)
			sort.Strings(want)
			var got []string
			for u := range pulled[blkid] {
				got = append(got, u)
			}
			sort.Strings(got)
			if strings.Join(got, "\x00") != strings.Join(want, "\x00") {
				t.Fatalf("block %s: one replica on the last-ranked server %q, desired %d: balancer pulls to %q, the first %d servers of the documented order are %q\n documented order: %q\n%s",
					blkid, bc.order[len(bc.order)-1], bc.k, got, bc.k, want, bc.order, describe())
			}
		}

		labels := []string{fmt.Sprintf("uuids=%s", [...]string{"all-27", "all-other-length", "mixed"}[mode]), fmt.Sprintf("hashes=%d", len(hashes))}
		{
			seenL := map[string]bool{}
			for _, l := range dirLabels {
				if !seenL[l] {
					seenL[l] = true
					labels = append(labels, l)
				}
			}
		}
		{
			// measured on the set itself: the longest weight prefix two servers share for one of the hashes
			keys := make([]string, len(uuids))
			for i, u := range uuids {
				keys[i] = c12Key(u)
			}
			best := 0
			for _, h := range hashes {
				if c := nearmd5.MaxSharedPrefix(h, keys); c > best {
					best = c
				}
			}
			labels = append(labels, "balancer:longest-common-weight-prefix="+nearmd5.PrefixBucket(best))
		}
		switch {
		case n <= 4:
			labels = append(labels, "n=2-4")
		case n <= 12:
			labels = append(labels, "n=5-12")
		default:
			labels = append(labels, "n=13-32")
		}
		stats.InfoAdd("balancer_blocks_ranked", int64(len(cases)))
		stats.Case(stats.FP(uuids, hashes), true, labels...)
		if n <= 4 && stats.WantSample("balancer") {
			stats.Sample("balancer", map[string]interface{}{"servers": uuids, "hash": hashes[0], "documented_order": ref.RendezvousOrder(hashes[0], uuids)})
		}
	})
}
