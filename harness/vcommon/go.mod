module verif.local/vcommon

go 1.21

require pgregory.net/rapid v1.3.0
