module verif.local/vcommon

go 1.23

toolchain go1.23.5

require pgregory.net/rapid v1.3.0
