package mgen

import (
	"bytes"
	"testing"

	"pgregory.net/rapid"
)

// Self-check: the generator's structure and the reference interpreter agree,
// and every generated text is valid under the interpreter's grammar.
func TestGenVsInterp(t *testing.T) {
	rapid.Check(t, func(t *rapid.T) {
		m := Gen(t, GenOpts{Signed: true, WideBytes: rapid.Bool().Draw(t, "wide"), BigStreams: rapid.Bool().Draw(t, "big"), HugeLine: rapid.IntRange(0, 20).Draw(t, "huge") == 0})
		txt := m.Text()
		p, err := Interpret(txt, Options{})
		if err != nil {
			t.Fatalf("generated manifest rejected by reference: %v\n%q", err, txt)
		}
		want := m.Content()
		store := m.Store()
		if len(p.Paths) != len(want) {
			t.Fatalf("paths %v vs %d", p.Paths, len(want))
		}
		for path, w := range want {
			got, err := p.Bytes(path, store)
			if err != nil || !bytes.Equal(got, w) {
				t.Fatalf("path %q: got %q err %v want %q\n%q", path, got, err, w, txt)
			}
		}
	})
}
