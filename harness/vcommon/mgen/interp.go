// Package mgen: grammar-directed manifest generator and a reference
// interpreter of doc/architecture/manifest-format (no code shared with any
// codec under test).
package mgen

import (
	"fmt"
	"regexp"
	"strconv"
	"strings"
)

// Seg is one piece of a file: bytes [Off, Off+Len) of block number Blk of
// stream number Stream (both 0-based), whose locator token is Loc.
type Seg struct {
	Stream int
	Blk    int
	Loc    string
	Off    int64
	Len    int64
}

func (s Seg) String() string { return fmt.Sprintf("%s[%d:+%d]", s.Loc, s.Off, s.Len) }

// PStream is one parsed stream.
type PStream struct {
	Name     string   // unescaped
	RawName  string   // as written
	Locators []string // tokens as written
	Sizes    []int64
	Files    []PFile
}

// PFile is one parsed file token.
type PFile struct {
	Pos, Size int64
	Name      string // unescaped
	RawName   string
}

// Parsed is the reference interpretation of a manifest text.
type Parsed struct {
	Streams []PStream
	// Paths in order of first appearance ("./dir/file" form; stream "." + "/" + name).
	Paths []string
	// Segs per path, zero-length pieces dropped, adjacent pieces NOT merged.
	Segs map[string][]Seg
	// Size per path.
	Size map[string]int64
	// EmptyDirs lists directories announced by the "0:0:." marker convention
	// (a zero-length file token whose unescaped name is "." or ends in "/.").
	EmptyDirs []string
}

var locatorRe = regexp.MustCompile(`^[0-9a-f]{32}\+[0-9]+(\+[A-Z][A-Za-z0-9@_-]*)*$`)
var fileTokRe = regexp.MustCompile(`^([0-9]+):([0-9]+):(.+)$`)

// Unescape implements the manifest escape convention: \ooo (three octal
// digits, value <= 0377) stands for that byte, \\ for a backslash; anything
// else is literal.
func Unescape(s string) string {
	var out []byte
	for i := 0; i < len(s); {
		if s[i] == '\\' && i+1 < len(s) && s[i+1] == '\\' {
			out = append(out, '\\')
			i += 2
			continue
		}
		if s[i] == '\\' && i+3 < len(s) && isOct(s[i+1]) && isOct(s[i+2]) && isOct(s[i+3]) {
			v := int(s[i+1]-'0')*64 + int(s[i+2]-'0')*8 + int(s[i+3]-'0')
			if v <= 255 {
				out = append(out, byte(v))
				i += 4
				continue
			}
		}
		out = append(out, s[i])
		i++
	}
	return string(out)
}

func isOct(c byte) bool { return c >= '0' && c <= '7' }

// Options for Interpret.
type Options struct {
	// DirMarkers: treat a zero-length file token named "." (or "x/.") as the
	// empty-directory marker instead of rejecting it.
	DirMarkers bool
	// WideNames: do not require names to be valid UTF-8 / printable.
	WideNames bool
}

// Interpret parses text strictly by the published grammar and returns the
// file → segments map, or an error if the text is not a valid manifest.
func Interpret(text string, opt Options) (*Parsed, error) {
	p := &Parsed{Segs: map[string][]Seg{}, Size: map[string]int64{}}
	if text == "" {
		return p, nil
	}
	if !strings.HasSuffix(text, "\n") {
		return nil, fmt.Errorf("manifest does not end with newline")
	}
	lines := strings.Split(text[:len(text)-1], "\n")
	isFile := map[string]bool{}
	isDir := map[string]bool{".": true}
	for li, line := range lines {
		toks := strings.Split(line, " ")
		for _, tk := range toks {
			if tk == "" {
				return nil, fmt.Errorf("line %d: empty token", li+1)
			}
			for i := 0; i < len(tk); i++ {
				if tk[i] <= 0x20 {
					return nil, fmt.Errorf("line %d: control/whitespace byte in token %q", li+1, tk)
				}
			}
		}
		st := PStream{RawName: toks[0], Name: Unescape(toks[0])}
		if err := checkStreamName(st.Name); err != nil {
			return nil, fmt.Errorf("line %d: %v", li+1, err)
		}
		i := 1
		var total int64
		for ; i < len(toks) && locatorRe.MatchString(toks[i]); i++ {
			sz, err := strconv.ParseInt(strings.Split(toks[i], "+")[1], 10, 64)
			if err != nil {
				return nil, fmt.Errorf("line %d: bad size in %q", li+1, toks[i])
			}
			st.Locators = append(st.Locators, toks[i])
			st.Sizes = append(st.Sizes, sz)
			total += sz
		}
		if len(st.Locators) == 0 {
			return nil, fmt.Errorf("line %d: no locators", li+1)
		}
		if i == len(toks) {
			return nil, fmt.Errorf("line %d: no file tokens", li+1)
		}
		for ; i < len(toks); i++ {
			m := fileTokRe.FindStringSubmatch(toks[i])
			if m == nil {
				return nil, fmt.Errorf("line %d: bad file token %q", li+1, toks[i])
			}
			pos, err1 := strconv.ParseInt(m[1], 10, 64)
			size, err2 := strconv.ParseInt(m[2], 10, 64)
			if err1 != nil || err2 != nil {
				return nil, fmt.Errorf("line %d: bad number in %q", li+1, toks[i])
			}
			if pos+size > total {
				return nil, fmt.Errorf("line %d: file token %q exceeds stream length %d", li+1, toks[i], total)
			}
			name := Unescape(m[3])
			if opt.DirMarkers && size == 0 && (name == "." || strings.HasSuffix(name, "/.")) {
				dir := st.Name
				if name != "." {
					dir += "/" + strings.TrimSuffix(name, "/.")
				}
				if err := checkFileName(strings.TrimPrefix(dir, "./")); dir != "." && err != nil {
					return nil, fmt.Errorf("line %d: %v", li+1, err)
				}
				if err := addDirs(dir+"/x", isFile, isDir); err != nil {
					return nil, fmt.Errorf("line %d: %v", li+1, err)
				}
				p.EmptyDirs = append(p.EmptyDirs, dir)
				st.Files = append(st.Files, PFile{pos, size, name, m[3]})
				continue
			}
			if err := checkFileName(name); err != nil {
				return nil, fmt.Errorf("line %d: %v", li+1, err)
			}
			path := st.Name + "/" + name
			if isDir[path] {
				return nil, fmt.Errorf("line %d: %q is used as a directory and as a file", li+1, path)
			}
			if err := addDirs(path, isFile, isDir); err != nil {
				return nil, fmt.Errorf("line %d: %v", li+1, err)
			}
			if !isFile[path] {
				isFile[path] = true
				p.Paths = append(p.Paths, path)
				p.Segs[path] = nil
			}
			st.Files = append(st.Files, PFile{pos, size, name, m[3]})
			// map [pos, pos+size) onto blocks
			var off int64
			for bi, bs := range st.Sizes {
				lo, hi := off, off+bs
				off = hi
				a, b := max64(lo, pos), min64(hi, pos+size)
				if b > a {
					p.Segs[path] = append(p.Segs[path], Seg{Stream: li, Blk: bi, Loc: st.Locators[bi], Off: a - lo, Len: b - a})
				}
			}
			p.Size[path] += size
		}
		p.Streams = append(p.Streams, st)
	}
	return p, nil
}

func addDirs(path string, isFile, isDir map[string]bool) error {
	parts := strings.Split(path, "/")
	for i := 1; i < len(parts); i++ {
		d := strings.Join(parts[:i], "/")
		if isFile[d] {
			return fmt.Errorf("%q is used as a file and as a directory", d)
		}
		isDir[d] = true
	}
	return nil
}

func checkStreamName(n string) error {
	if n == "." {
		return nil
	}
	if !strings.HasPrefix(n, "./") {
		return fmt.Errorf("stream name %q does not start with ./", n)
	}
	return checkFileName(n[2:])
}

func checkFileName(n string) error {
	if n == "" {
		return fmt.Errorf("empty name")
	}
	for _, c := range strings.Split(n, "/") {
		if c == "" || c == "." || c == ".." {
			return fmt.Errorf("bad path component %q in %q", c, n)
		}
	}
	return nil
}

func max64(a, b int64) int64 {
	if a > b {
		return a
	}
	return b
}
func min64(a, b int64) int64 {
	if a < b {
		return a
	}
	return b
}

// Bytes returns the content of path given the block store (keyed by the
// 32-hex hash).
func (p *Parsed) Bytes(path string, store map[string][]byte) ([]byte, error) {
	var out []byte
	for _, s := range p.Segs[path] {
		blk, ok := store[s.Loc[:32]]
		if !ok {
			return nil, fmt.Errorf("block %s not in store", s.Loc)
		}
		if s.Off+s.Len > int64(len(blk)) {
			return nil, fmt.Errorf("segment %v exceeds block length %d", s, len(blk))
		}
		out = append(out, blk[s.Off:s.Off+s.Len]...)
	}
	return out, nil
}

// MergeSegs merges adjacent pieces of the same block occurrence (used when a
// codec is allowed to coalesce).
func MergeSegs(in []Seg) []Seg {
	var out []Seg
	for _, s := range in {
		if n := len(out); n > 0 && out[n-1].Stream == s.Stream && out[n-1].Blk == s.Blk && out[n-1].Off+out[n-1].Len == s.Off {
			out[n-1].Len += s.Len
			continue
		}
		out = append(out, s)
	}
	return out
}

// Tokens splits a manifest into its tokens and the separator bytes between
// them, so that texts can be compared token-wise including whitespace.
func Tokens(text string) (toks []string, seps []string) {
	i := 0
	for i < len(text) {
		j := i
		for j < len(text) && text[j] != ' ' && text[j] != '\n' {
			j++
		}
		toks = append(toks, text[i:j])
		k := j
		for k < len(text) && (text[k] == ' ' || text[k] == '\n') {
			k++
		}
		seps = append(seps, text[j:k])
		i = k
	}
	return
}
