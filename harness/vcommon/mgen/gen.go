package mgen

import (
	"crypto/md5"
	"fmt"
	"sort"
	"strings"

	"pgregory.net/rapid"
)

// Block is one data block of a generated stream.
type Block struct {
	Data  []byte
	Hints string // e.g. "+Aabc@123+Zfoo", appended after hash+size
}

func (b Block) Hash() string { return fmt.Sprintf("%x", md5.Sum(b.Data)) }
func (b Block) Locator() string {
	return fmt.Sprintf("%s+%d%s", b.Hash(), len(b.Data), b.Hints)
}

// FileTok is one generated file token. Name is the raw (unescaped) name and
// may contain "/"; Esc is the escaped form the generator chose to write.
type FileTok struct {
	Pos, Size int64
	Name      string
	Esc       string
}

// Stream is one generated stream.
type Stream struct {
	Name   string // raw, "." or "./a/b"
	Esc    string
	Blocks []Block
	Files  []FileTok
}

func (s *Stream) Len() (n int64) {
	for _, b := range s.Blocks {
		n += int64(len(b.Data))
	}
	return
}

func (s *Stream) Data() []byte {
	var out []byte
	for _, b := range s.Blocks {
		out = append(out, b.Data...)
	}
	return out
}

// Manifest is a generated manifest.
type Manifest struct {
	Streams []Stream
}

// Text renders the manifest.
func (m *Manifest) Text() string {
	var sb strings.Builder
	for _, s := range m.Streams {
		sb.WriteString(s.Esc)
		for _, b := range s.Blocks {
			sb.WriteByte(' ')
			sb.WriteString(b.Locator())
		}
		for _, f := range s.Files {
			fmt.Fprintf(&sb, " %d:%d:%s", f.Pos, f.Size, f.Esc)
		}
		sb.WriteByte('\n')
	}
	return sb.String()
}

// Store returns hash → content for every block.
func (m *Manifest) Store() map[string][]byte {
	st := map[string][]byte{}
	for _, s := range m.Streams {
		for _, b := range s.Blocks {
			st[b.Hash()] = b.Data
		}
	}
	return st
}

// Paths returns all file paths in order of first appearance.
func (m *Manifest) Paths() []string {
	seen := map[string]bool{}
	var out []string
	for _, s := range m.Streams {
		for _, f := range s.Files {
			p := s.Name + "/" + f.Name
			if !seen[p] {
				seen[p] = true
				out = append(out, p)
			}
		}
	}
	return out
}

// Content returns the expected bytes of every path straight from the
// generator's structure (concatenation of the file tokens' ranges in order).
func (m *Manifest) Content() map[string][]byte {
	out := map[string][]byte{}
	for _, s := range m.Streams {
		data := s.Data()
		for _, f := range s.Files {
			p := s.Name + "/" + f.Name
			out[p] = append(out[p], data[f.Pos:f.Pos+f.Size]...)
		}
	}
	return out
}

// Dirs returns every directory implied by the file paths (including ".").
func (m *Manifest) Dirs() []string {
	set := map[string]bool{".": true}
	for _, p := range m.Paths() {
		parts := strings.Split(p, "/")
		for i := 1; i < len(parts); i++ {
			set[strings.Join(parts[:i], "/")] = true
		}
	}
	for _, s := range m.Streams {
		parts := strings.Split(s.Name, "/")
		for i := 1; i <= len(parts); i++ {
			set[strings.Join(parts[:i], "/")] = true
		}
	}
	var out []string
	for d := range set {
		out = append(out, d)
	}
	sort.Strings(out)
	return out
}

// Features summarises what a manifest exercises (for labels / non-triviality).
type Features struct {
	ZeroBlock       bool // some zero-length block
	InteriorZero    bool // zero-length block that is not last in its stream
	LeadingZero     bool
	CrossBlock      bool // some file token spans a block boundary
	Span3           bool // spans > 2 blocks
	EscapedName     bool // some name needs (or uses) an escape
	BackslashName   bool
	RepeatedPath    bool // path assembled from >1 file token
	CrossStreamPath bool // same path in >1 stream
	ZeroFile        bool
	NonASCII        bool
	Hints           bool
	Backward        bool // a file token starts before the previous one ended (rewind)
}

func (m *Manifest) Features() Features {
	var f Features
	count := map[string]int{}
	streamsOf := map[string]map[int]bool{}
	for si, s := range m.Streams {
		if s.Esc != s.Name {
			f.EscapedName = true
		}
		var bounds []int64
		var off int64
		for bi, b := range s.Blocks {
			if len(b.Data) == 0 {
				f.ZeroBlock = true
				if bi < len(s.Blocks)-1 {
					f.InteriorZero = true
				}
				if bi == 0 {
					f.LeadingZero = true
				}
			}
			if b.Hints != "" {
				f.Hints = true
			}
			off += int64(len(b.Data))
			bounds = append(bounds, off)
		}
		var prevEnd int64
		for _, ft := range s.Files {
			if ft.Pos < prevEnd {
				f.Backward = true
			}
			prevEnd = ft.Pos + ft.Size
			p := s.Name + "/" + ft.Name
			count[p]++
			if streamsOf[p] == nil {
				streamsOf[p] = map[int]bool{}
			}
			streamsOf[p][si] = true
			if ft.Esc != ft.Name {
				f.EscapedName = true
			}
			if strings.Contains(ft.Name, `\`) || strings.Contains(s.Name, `\`) {
				f.BackslashName = true
			}
			for i := 0; i < len(ft.Name); i++ {
				if ft.Name[i] >= 0x80 {
					f.NonASCII = true
				}
			}
			if ft.Size == 0 {
				f.ZeroFile = true
			}
			crossed := 0
			for _, b := range bounds[:len(bounds)-1] {
				if ft.Pos < b && b < ft.Pos+ft.Size {
					crossed++
				}
			}
			if crossed > 0 {
				f.CrossBlock = true
			}
			if crossed > 1 {
				f.Span3 = true
			}
		}
	}
	for p, n := range count {
		if n > 1 {
			f.RepeatedPath = true
		}
		if len(streamsOf[p]) > 1 {
			f.CrossStreamPath = true
		}
	}
	return f
}

func (f Features) Labels() []string {
	var l []string
	add := func(b bool, s string) {
		if b {
			l = append(l, s)
		}
	}
	add(f.ZeroBlock, "zero-length-block")
	add(f.InteriorZero, "interior-zero-block")
	add(f.LeadingZero, "leading-zero-block")
	add(f.CrossBlock, "file-crosses-block")
	add(f.Span3, "file-spans-3+-blocks")
	add(f.EscapedName, "escaped-name")
	add(f.BackslashName, "backslash-in-name")
	add(f.RepeatedPath, "repeated-file-token")
	add(f.CrossStreamPath, "path-in-several-streams")
	add(f.ZeroFile, "zero-length-file")
	add(f.NonASCII, "non-ascii-name")
	add(f.Hints, "locator-hints")
	add(f.Backward, "file-token-rewinds")
	return l
}

// NonTrivial is the C10 rule: a file token that crosses a block boundary, or a
// zero-length block, or an escaped name.
func (f Features) NonTrivial() bool { return f.CrossBlock || f.ZeroBlock || f.EscapedName }

// GenOpts tunes the generator.
type GenOpts struct {
	MaxStreams  int  // default 4
	MaxBlocks   int  // default 5
	MaxBlockLen int  // default 20
	MaxFiles    int  // default 6
	NoZeroBlock bool // exclude zero-length blocks (used to route around known findings)
	PlainNames  bool // only [a-z0-9.] names
	NoBackslash bool // no raw backslash in names
	Signed      bool // add +A hints (fake signatures) to some locators
	NoHints     bool
	// WideBytes: names may contain any byte 0x01-0xff except '/'.
	WideBytes bool
	// SortedNoRewind: file tokens in non-decreasing position order.
	NoRewind bool
	// BigStreams: some streams get 16-100 tiny blocks (files spanning dozens of
	// blocks, more than 64 segments per file, long block tables).
	BigStreams bool
	// HugeLine: one stream gets enough locators to make its line longer than
	// 64 KiB / 128 KiB (used sparingly: ~1500-3500 locators).
	HugeLine bool
}

var compAlphabet = []string{"a", "b", "c", "d", "foo", "bar.txt", "x1"}

func genComponent(t *rapid.T, o GenOpts, label string) string {
	if o.PlainNames {
		return rapid.SampledFrom(compAlphabet).Draw(t, label)
	}
	cls := rapid.IntRange(0, 11).Draw(t, label+"Class")
	switch cls {
	case 0, 1, 2, 3:
		return rapid.SampledFrom(compAlphabet).Draw(t, label)
	case 4:
		return rapid.SampledFrom([]string{"a b", " a", "a ", "  ", "a  b c"}).Draw(t, label)
	case 5:
		return rapid.SampledFrom([]string{"a:b", ":", "0:0:a", "a:", ":a", "1:2"}).Draw(t, label)
	case 6:
		if o.NoBackslash {
			return "q"
		}
		return rapid.SampledFrom([]string{`a\b`, `\`, `\\`, `a\`, `\a`, `\\\`}).Draw(t, label)
	case 7:
		if o.NoBackslash {
			return "q7"
		}
		return rapid.SampledFrom([]string{`a\101`, `\040`, `\134`, `x\0401`, `\12`, `\1234`, `\\040`}).Draw(t, label)
	case 8:
		if o.NoBackslash {
			return "q8"
		}
		return rapid.SampledFrom([]string{`a\189`, `\888`, `\999x`, `\08`, `\400`, `\777`}).Draw(t, label)
	case 9:
		return rapid.SampledFrom([]string{"é", "日本", "a b", "ü.txt", " "}).Draw(t, label)
	case 10:
		return rapid.SampledFrom([]string{"d41d8cd98f00b204e9800998ecf8427e+0", "acbd18db4cc2f85cedef654fccc4a4d8+3", "0123456789abcdef0123456789abcdef"}).Draw(t, label)
	default:
		if o.WideBytes {
			n := rapid.IntRange(1, 4).Draw(t, label+"N")
			b := make([]byte, n)
			for i := range b {
				c := byte(rapid.IntRange(1, 255).Draw(t, label+"B"))
				if c == '/' {
					c = '_'
				}
				b[i] = c
			}
			s := string(b)
			if s == "." || s == ".." {
				return "dot"
			}
			return s
		}
		return rapid.SampledFrom([]string{"a\tb", "a\nb", "\x01", "tab\t", "..."}).Draw(t, label)
	}
}

// EscapeStd is the generator's canonical escaper: octal for bytes <= 0x20,
// backslash and colon.
func EscapeStd(s string) string {
	var sb strings.Builder
	for i := 0; i < len(s); i++ {
		c := s[i]
		if c <= 0x20 || c == '\\' || c == ':' || c == 0x7f {
			fmt.Fprintf(&sb, "\\%03o", c)
		} else {
			sb.WriteByte(c)
		}
	}
	return sb.String()
}

// genEscape writes s in one of the equivalent escaped spellings.
func genEscape(t *rapid.T, s string, isStream bool, label string) string {
	mode := rapid.IntRange(0, 5).Draw(t, label+"EscMode")
	var sb strings.Builder
	for i := 0; i < len(s); i++ {
		c := s[i]
		switch {
		case c <= 0x20 || c == 0x7f:
			fmt.Fprintf(&sb, "\\%03o", c)
		case c == '\\':
			if mode%2 == 0 {
				sb.WriteString(`\\`)
			} else {
				sb.WriteString(`\134`)
			}
		case c == ':':
			// a raw colon is unambiguous in a file name (split on the first two
			// colons) but not in a stream name (it would make the token look
			// like a file token), so stream names always escape it.
			if isStream || mode < 3 {
				sb.WriteString(`\072`)
			} else {
				sb.WriteByte(c)
			}
		case mode == 5 && c != '/' && c < 0x80 && i%3 == 1:
			fmt.Fprintf(&sb, "\\%03o", c) // gratuitous escape of an ordinary byte
		default:
			sb.WriteByte(c)
		}
	}
	return sb.String()
}

var hintPool = []string{"+Zfoo", "+K@abcde", "+Bx_y-z", "+K@zzzzz-bi6l4-0123456789abcde"}

func genHints(t *rapid.T, o GenOpts, label string) string {
	if o.NoHints {
		return ""
	}
	n := rapid.IntRange(0, 4).Draw(t, label+"N")
	if n > 2 {
		n = 0
	}
	var parts []string
	for i := 0; i < n; i++ {
		parts = append(parts, rapid.SampledFrom(hintPool).Draw(t, label))
	}
	if o.Signed && rapid.IntRange(0, 2).Draw(t, label+"Signed") > 0 {
		sig := "+A" + rapid.StringMatching(`[0-9a-f]{40}`).Draw(t, label+"Sig") + "@" + rapid.StringMatching(`[67][0-9a-f]{7}`).Draw(t, label+"Exp")
		k := rapid.IntRange(0, len(parts)).Draw(t, label+"SigPos")
		parts = append(parts[:k], append([]string{sig}, parts[k:]...)...)
	}
	return strings.Join(parts, "")
}

// Gen draws a manifest valid under the published grammar.
func Gen(t *rapid.T, o GenOpts) *Manifest {
	if o.MaxStreams == 0 {
		o.MaxStreams = 4
	}
	if o.MaxBlocks == 0 {
		o.MaxBlocks = 5
	}
	if o.MaxBlockLen == 0 {
		o.MaxBlockLen = 20
	}
	if o.MaxFiles == 0 {
		o.MaxFiles = 6
	}
	m := &Manifest{}
	isFile := map[string]bool{}
	isDir := map[string]bool{".": true}
	nstreams := rapid.IntRange(1, o.MaxStreams).Draw(t, "nstreams")
	counter := byte(0)
	for si := 0; si < nstreams; si++ {
		var s Stream
		// stream name
		depth := rapid.IntRange(0, 2).Draw(t, "streamDepth")
		name := "."
		ok := true
		for d := 0; d < depth; d++ {
			c := genComponent(t, o, "streamComp")
			if c == "." || c == ".." || c == "" {
				c = "dd"
			}
			name += "/" + c
			if isFile[name] {
				ok = false
				break
			}
		}
		if !ok {
			name = fmt.Sprintf("./s%d", si)
			if isFile[name] {
				continue
			}
		}
		s.Name = name
		s.Esc = genEscape(t, name, true, "stream")
		// blocks
		nblocks := rapid.IntRange(1, o.MaxBlocks).Draw(t, "nblocks")
		maxLen := o.MaxBlockLen
		big := o.BigStreams && rapid.IntRange(0, 1).Draw(t, "bigStream") == 0
		if big {
			nblocks = rapid.SampledFrom([]int{16, 17, 31, 32, 33, 63, 64, 65, 66, 70, 100}).Draw(t, "bigNBlocks")
			maxLen = 3
		}
		if o.HugeLine && si == 0 {
			nblocks = rapid.SampledFrom([]int{1400, 1700, 2900, 3300}).Draw(t, "hugeNBlocks")
			maxLen = 2
			big = true
		}
		for bi := 0; bi < nblocks; bi++ {
			var n int
			switch rapid.IntRange(0, 5).Draw(t, "blkLenClass") {
			case 0:
				n = 0
			case 1:
				n = 1
			default:
				n = rapid.IntRange(0, maxLen).Draw(t, "blkLen")
			}
			if big && bi > 40 {
				// keep the draw count of very long streams bounded
				n = 1 + (bi*7+si)%3
			}
			if o.NoZeroBlock && n == 0 {
				n = 1
			}
			data := make([]byte, n)
			for i := range data {
				counter++
				data[i] = 'A' + (counter*7+byte(si)*3+byte(bi))%58
			}
			if n > 0 && (!big || bi <= 40) && rapid.IntRange(0, 9).Draw(t, "blkDup") == 0 && bi > 0 {
				// repeat an earlier block (same locator twice in a stream)
				prev := s.Blocks[rapid.IntRange(0, bi-1).Draw(t, "blkDupIdx")]
				data = append([]byte(nil), prev.Data...)
			}
			hints := ""
			if !big || bi <= 40 {
				hints = genHints(t, o, "hint")
			} else if o.Signed {
				hints = fmt.Sprintf("+A%040x@6f%06x", bi, bi)
			}
			s.Blocks = append(s.Blocks, Block{Data: data, Hints: hints})
		}
		total := s.Len()
		var bounds []int64
		var off int64
		bounds = append(bounds, 0)
		for _, b := range s.Blocks {
			off += int64(len(b.Data))
			bounds = append(bounds, off)
		}
		pickPos := func(label string, lo int64) int64 {
			var v int64
			switch rapid.IntRange(0, 3).Draw(t, label+"Kind") {
			case 0:
				v = bounds[rapid.IntRange(0, len(bounds)-1).Draw(t, label+"B")]
			case 1:
				v = bounds[rapid.IntRange(0, len(bounds)-1).Draw(t, label+"B")] + int64(rapid.IntRange(-1, 1).Draw(t, label+"D"))
			default:
				v = rapid.Int64Range(0, total).Draw(t, label)
			}
			if v < lo {
				v = lo
			}
			if v > total {
				v = total
			}
			return v
		}
		nfiles := rapid.IntRange(1, o.MaxFiles).Draw(t, "nfiles")
		var prevEnd int64
		for fi := 0; fi < nfiles; fi++ {
			// file name: 1-2 components, sometimes reuse an existing path
			var fname string
			if len(s.Files) > 0 && rapid.IntRange(0, 4).Draw(t, "reuseName") == 0 {
				fname = s.Files[rapid.IntRange(0, len(s.Files)-1).Draw(t, "reuseIdx")].Name
			} else {
				nc := 1
				if rapid.IntRange(0, 3).Draw(t, "fileDepth") == 0 {
					nc = 2
				}
				var comps []string
				for c := 0; c < nc; c++ {
					x := genComponent(t, o, "fileComp")
					if x == "." || x == ".." || x == "" {
						x = "ff"
					}
					comps = append(comps, x)
				}
				fname = strings.Join(comps, "/")
			}
			path := s.Name + "/" + fname
			// validity: no file/dir conflicts
			conflict := isDir[path]
			parts := strings.Split(path, "/")
			for i := 1; i < len(parts); i++ {
				if isFile[strings.Join(parts[:i], "/")] {
					conflict = true
				}
			}
			if conflict {
				fname = fmt.Sprintf("f%d_%d", si, fi)
				path = s.Name + "/" + fname
				if isDir[path] || isFile[s.Name] {
					continue
				}
			}
			lo := int64(0)
			if o.NoRewind {
				lo = prevEnd
			}
			start := pickPos("start", lo)
			end := pickPos("end", start)
			if rapid.IntRange(0, 7).Draw(t, "whole") == 0 {
				start, end = lo, total
			}
			prevEnd = end
			parts = strings.Split(path, "/")
			for i := 1; i < len(parts); i++ {
				isDir[strings.Join(parts[:i], "/")] = true
			}
			isFile[path] = true
			s.Files = append(s.Files, FileTok{Pos: start, Size: end - start, Name: fname, Esc: genEscape(t, fname, false, "file")})
		}
		if len(s.Files) == 0 {
			continue
		}
		// the stream's own directory chain
		parts := strings.Split(s.Name, "/")
		for i := 1; i <= len(parts); i++ {
			isDir[strings.Join(parts[:i], "/")] = true
		}
		m.Streams = append(m.Streams, s)
	}
	if len(m.Streams) == 0 {
		b := Block{Data: []byte("x")}
		m.Streams = []Stream{{Name: ".", Esc: ".", Blocks: []Block{b}, Files: []FileTok{{0, 1, "only", "only"}}}}
	}
	return m
}
