// Package nearmd5 finds strings whose rendezvous weights MD5(hash+key) share a
// long common hex PREFIX but differ later (C12, round 2). Random service sets
// practically never contain such services, so an implementation that compares
// only part of the weight is never told apart from the documented full string
// comparison without them.
//
// Everything here is a pure function of its arguments: the candidates are
// derived from a seed with splitmix64, so a search is reproducible from the
// values rapid drew.
package nearmd5

import (
	"crypto/md5"
	"encoding/hex"
	"fmt"
	"sync"
)

const Alnum = "0123456789abcdefghijklmnopqrstuvwxyz"

// SplitMix64 advances the state and returns the next output.
func SplitMix64(state *uint64) uint64 {
	*state += 0x9e3779b97f4a7c15
	z := *state
	z = (z ^ (z >> 30)) * 0xbf58476d1ce4e5b9
	z = (z ^ (z >> 27)) * 0x94d049bb133111eb
	return z ^ (z >> 31)
}

// Weight is the documented weight of a service whose weight key is key.
func Weight(hash, key string) string {
	s := md5.Sum([]byte(hash + key))
	return hex.EncodeToString(s[:])
}

// CommonPrefix returns the number of leading characters a and b share.
func CommonPrefix(a, b string) int {
	n := 0
	for n < len(a) && n < len(b) && a[n] == b[n] {
		n++
	}
	return n
}

// Result of a search.
type Result struct {
	Keys    []string // want keys (or fewer when the candidate budget ran out), pairwise distinct weights
	Weights []string
	Tried   int
}

// Search draws up to maxCand (at most 2^18) candidate keys (fixed + keyLen
// characters of [0-9a-z], derived from seed) and returns the first group of
// `want` (2 or 3) candidates whose weights MD5(hash+key) agree in their first
// hexDigits (1..15) hex digits. Birthday style: about 2^(2*hexDigits) candidates
// are enough for a pair, 2^(8*hexDigits/3) for a triple. If the budget runs out
// the fullest group seen so far is returned (len(Keys) < want; possibly 1).
func Search(hash string, fixed string, keyLen int, seed uint64, hexDigits, want, maxCand int) Result {
	if hexDigits < 1 || hexDigits > 15 || keyLen < 1 || want < 2 || want > 3 {
		panic(fmt.Sprintf("nearmd5.Search: bad arguments hexDigits=%d keyLen=%d want=%d", hexDigits, keyLen, want))
	}
	if maxCand > tabSize/2 {
		maxCand = tabSize / 2
	}
	if maxCand < 16 {
		maxCand = 16
	}
	// use only as much of the table as the budget needs (load <= 1/2): small
	// searches then stay inside the CPU caches
	bits := uint(5)
	for 1<<bits < 2*maxCand {
		bits++
	}
	mask := uint64(1)<<bits - 1
	tabMu.Lock()
	defer tabMu.Unlock()
	tabGen++
	if tabGen == 0 { // wrapped: stale stamps could match again
		for i := range tab {
			tab[i].gen = 0
		}
		tabGen = 1
	}
	perKey := uint64((keyLen + 11) / 12) // splitmix outputs per candidate
	buf := make([]byte, 0, len(hash)+len(fixed)+keyLen)
	buf = append(buf, hash...)
	buf = append(buf, fixed...)
	base := len(buf)
	// candidate i is a pure function of (seed, i): splitmix64 is counter based
	gen := func(i int32) []byte {
		st := seed + uint64(i)*perKey*0x9e3779b97f4a7c15
		buf = buf[:base]
		var x uint64
		for j := 0; j < keyLen; j++ {
			if j%12 == 0 {
				x = SplitMix64(&st)
			}
			buf = append(buf, Alnum[x%36])
			x /= 36
		}
		return buf
	}
	key := func(i int32) string { return string(gen(i)[len(hash):]) }
	// buckets with two or more members (rare: that is what is being looked for)
	multi := map[uint64][]int32{}
	collect := func(members []int32, tried int) Result {
		r := Result{Tried: tried}
		for _, i := range members {
			k := key(i)
			r.Keys = append(r.Keys, k)
			r.Weights = append(r.Weights, Weight(hash, k))
		}
		return r
	}
	limit := maxCand
	if keyLen < 4 && pow36(keyLen) < limit {
		limit = pow36(keyLen) * 8 // short keys repeat; do not spin for ever
	}
	var best []int32
	for i := int32(0); int(i) < limit; i++ {
		sum := md5.Sum(gen(i))
		var b uint64
		for j := 0; j < 8; j++ {
			b = b<<8 | uint64(sum[j])
		}
		b >>= uint(64 - 4*hexDigits)
		slot := (b * 0x9e3779b97f4a7c15) >> (64 - bits)
		var e *tabEnt
		fresh := false
		for {
			e = &tab[slot]
			if e.gen != tabGen {
				*e = tabEnt{gen: tabGen, idx: i, b: b}
				fresh = true
				break
			}
			if e.b == b {
				break
			}
			slot = (slot + 1) & mask
		}
		if fresh {
			if best == nil {
				best = []int32{i}
			}
			continue
		}
		members := multi[b]
		if members == nil {
			members = []int32{e.idx}
		}
		// a repeated key (short keys) or an identical full weight would make
		// the order undefined: not a new member
		dup := false
		for _, m := range members {
			if Weight(hash, key(m)) == hex.EncodeToString(sum[:]) {
				dup = true
			}
		}
		if dup {
			continue
		}
		members = append(members, i)
		multi[b] = members
		if len(members) > len(best) {
			best = members
		}
		if len(members) >= want {
			return collect(members, int(i)+1)
		}
	}
	if best == nil {
		return Result{Tried: limit}
	}
	return collect(best, limit)
}

const (
	tabBits = 19
	tabSize = 1 << tabBits
)

type tabEnt struct {
	gen uint32 // search that wrote the entry (stale entries count as empty)
	idx int32  // first candidate with this prefix
	b   uint64 // the prefix
}

var (
	tabMu  sync.Mutex
	tab    [tabSize]tabEnt
	tabGen uint32
)

func pow36(n int) int {
	p := 1
	for i := 0; i < n; i++ {
		p *= 36
	}
	return p
}

// Pinned near-collisions that are out of reach of an in-test search: found once
// with Brent's cycle finding on x -> first hexDigits of MD5(hash + key(x))
// (2^32 evaluations for 16 hex digits). The keys are 15 characters long, so
// they serve as the weight key of a 27-character UUID (any 12-character prefix)
// and, unchanged, as a 15-character UUID of the "other length" class. Users must
// call Verify (the harnesses do, and fail VERIF-INFRA otherwise).
type PinnedPair struct {
	Hash string // = MD5(Preimage): a block with this content has this hash (write path)
	Hex  int    // the two weights agree in at least this many leading hex digits
	A, B string
}

// PinnedPreimage returns the 64-byte block content whose MD5 is the pinned hash
// (the upstream test vectors are md5 of fmt.Sprintf("%064x", k)).
func PinnedPreimage(hash string) (string, bool) {
	for k := 0; k < 4; k++ {
		pre := fmt.Sprintf("%064x", k)
		if Weight("", pre) == hash {
			return pre, true
		}
	}
	return "", false
}

var Pinned = []PinnedPair{
	// PINNED-BEGIN
	{Hash: "10eab6008d5642cf42abd2aa41f847cb", Hex: 10, A: "kk2kvg1ey5031ts", B: "kk1zdqw2983p6gw"},
	{Hash: "10eab6008d5642cf42abd2aa41f847cb", Hex: 12, A: "kk29c3no4h9ts00", B: "kk12w452c7r7f9c"},
	{Hash: "10eab6008d5642cf42abd2aa41f847cb", Hex: 14, A: "kk1g5m6ve0ogjr4", B: "kk22ibrqo3yow00"},
	{Hash: "10eab6008d5642cf42abd2aa41f847cb", Hex: 16, A: "kk1qnhsz4eicz1v", B: "kk1lrjhkvrxlgmh"}, // 2^33.7 MD5 evaluations, 1 h 57 min
	{Hash: "9a25b027482b37e047104e2e532cabae", Hex: 12, A: "kk1cp0gg63sbda8", B: "kk36vmgzujkyl8g"},
	{Hash: "9a25b027482b37e047104e2e532cabae", Hex: 14, A: "kk0sew7p76rke0w", B: "kk1y11kgl35r30g"},
	// PINNED-END
}

// Verify checks a pinned pair against MD5 itself.
func (p PinnedPair) Verify() error {
	wa, wb := Weight(p.Hash, p.A), Weight(p.Hash, p.B)
	if wa == wb || CommonPrefix(wa, wb) < p.Hex || len(p.A) != 15 || len(p.B) != 15 {
		return fmt.Errorf("pinned near-collision is wrong: hash %s keys %q %q weights %s %s, claimed %d common hex digits", p.Hash, p.A, p.B, wa, wb, p.Hex)
	}
	return nil
}
