package nearmd5

import (
	"fmt"
	"sort"

	"pgregory.net/rapid"
)

// Group is a set of service UUIDs whose weights for Hash share a long prefix.
type Group struct {
	Hash    string
	UUIDs   []string
	Keys    []string // weight keys (uuid[12:] for 27-character UUIDs, the UUID otherwise)
	Weights []string
	Hex     int  // requested common prefix (hex digits)
	Shared  int  // measured: smallest common prefix between two members
	Pinned  bool // taken from the Pinned table
	Tried   int  // candidates examined
}

// Modes, as used by the C12 harnesses: 0 = every UUID has 27 characters,
// 1 = no UUID has 27 characters, 2 = mixed.

func prefix27(t *rapid.T, label string) string {
	switch rapid.IntRange(0, 3).Draw(t, label+"pfx") {
	case 0:
		return "zzzzz-bi6l4-"
	case 1:
		return rapid.StringOfN(rapid.RuneFrom([]rune(Alnum)), 5, 5, 5).Draw(t, label+"cl") + "-bi6l4-"
	default:
		return rapid.StringOfN(rapid.RuneFrom([]rune(Alnum+"-")), 12, 12, 12).Draw(t, label+"p12")
	}
}

// requested common prefix: 4 and 5 digits 15% each, 6: 45%, 7: 15%, 8: 10%
// (an 8-digit pair costs ~80 000 MD5 evaluations, a 6-digit pair ~5 000)
var hexChoices = []int{4, 4, 4, 4, 4, 4, 5, 5, 5, 5, 5, 5, 6, 6, 6, 6, 6, 6, 6, 6, 6, 6, 6, 6, 6, 6, 6, 6, 6, 6, 7, 7, 7, 7, 7, 7, 8, 8, 8, 8}

type otherShape struct {
	fixed  string
	keyLen int
}

// shapes of UUIDs that do NOT have 27 characters (the whole UUID is the key)
var otherShapes = []otherShape{
	{"", 15}, {"", 15}, {"", 20}, {"", 8}, {"", 26}, {"", 28}, {"", 40},
	{"zzzzz-bi6l4-", 14}, {"zzzzz-bi6l4-", 16}, {"zzzzz-bi6l4-", 8},
}

// DrawGroup searches 2 or 3 UUIDs whose weights for hash agree in their first
// 4..8 hex digits (8: pairs only; triples for 4 and 5) and differ later. The
// search is a pure function of the drawn seed. A search that runs out of budget
// returns the group found so far (len(UUIDs) may be < 2: nothing to add).
func DrawGroup(t *rapid.T, label, hash string, mode int) Group {
	hexd := rapid.SampledFrom(hexChoices).Draw(t, label+"hex")
	want := 2
	if hexd <= 5 && rapid.IntRange(0, 3).Draw(t, label+"triple") < 6-hexd { // 4: half, 5: a quarter
		want = 3
	}
	seed := rapid.Uint64().Draw(t, label+"seed")
	is27 := mode == 0 || (mode == 2 && rapid.Bool().Draw(t, label+"is27"))
	fixed, keyLen := "", 15
	if !is27 {
		sh := rapid.SampledFrom(otherShapes).Draw(t, label+"shape")
		fixed, keyLen = sh.fixed, sh.keyLen
	}
	r := Search(hash, fixed, keyLen, seed, hexd, want, Budget(hexd, want))
	g := Group{Hash: hash, Hex: hexd, Tried: r.Tried, Keys: r.Keys, Weights: r.Weights}
	for i, k := range r.Keys {
		u := k
		// a 15-character key is the weight key of a 27-character UUID and, as
		// it stands, a UUID of another length: mixed sets get both forms
		if is27 && !(mode == 2 && rapid.IntRange(0, 3).Draw(t, fmt.Sprintf("%sbare%d", label, i)) == 0) {
			u = prefix27(t, fmt.Sprintf("%s%d", label, i)) + k
		}
		g.UUIDs = append(g.UUIDs, u)
	}
	g.measure()
	return g
}

// Budget is the number of candidates a search for `want` keys sharing hexd hex
// digits may examine: far above the birthday expectation (a pair needs about
// 1.25*2^(2*hexd) candidates, a triple about 1.8*2^(8*hexd/3)), so that running
// out is rare (8 digits: ~3 in 10 000 searches), and capped at 2^18.
func Budget(hexd, want int) int {
	b := 1 << 18
	switch {
	case want == 2 && hexd <= 4:
		b = 1 << 12
	case want == 2 && hexd == 5:
		b = 1 << 14
	case want == 2 && hexd == 6:
		b = 1 << 15
	case want == 2 && hexd == 7:
		b = 1 << 17
	case want == 3 && hexd <= 4:
		b = 1 << 14
	case want == 3 && hexd == 5:
		b = 1 << 16
	}
	return b
}

// DrawPinned picks one of the precomputed pairs (10..16 common hex digits).
func DrawPinned(t *rapid.T, label string, mode int) Group {
	p := rapid.SampledFrom(Pinned).Draw(t, label+"pinned")
	g := Group{Hash: p.Hash, Hex: p.Hex, Pinned: true, Keys: []string{p.A, p.B}}
	for i, k := range g.Keys {
		g.Weights = append(g.Weights, Weight(p.Hash, k))
		u := k
		if mode == 0 || (mode == 2 && rapid.Bool().Draw(t, fmt.Sprintf("%sis27_%d", label, i))) {
			u = prefix27(t, fmt.Sprintf("%s%d", label, i)) + k
		}
		g.UUIDs = append(g.UUIDs, u)
	}
	g.measure()
	return g
}

func (g *Group) measure() {
	g.Shared = 0
	if len(g.Weights) < 2 {
		return
	}
	g.Shared = 32
	for i := range g.Weights {
		for j := i + 1; j < len(g.Weights); j++ {
			if c := CommonPrefix(g.Weights[i], g.Weights[j]); c < g.Shared {
				g.Shared = c
			}
		}
	}
}

// MaxSharedPrefix is the measurement used for the evidence labels: the longest
// common weight prefix between two of the given keys (0 for fewer than two).
func MaxSharedPrefix(hash string, keys []string) int {
	ws := make([]string, len(keys))
	for i, k := range keys {
		ws[i] = Weight(hash, k)
	}
	sort.Strings(ws)
	best := 0
	for i := 1; i < len(ws); i++ {
		if c := CommonPrefix(ws[i-1], ws[i]); c > best {
			best = c
		}
	}
	return best
}

// PrefixBucket names the label bucket of a shared-prefix length.
func PrefixBucket(n int) string {
	switch {
	case n >= 16:
		return "16+"
	case n >= 14:
		return "14-15"
	case n >= 12:
		return "12-13"
	case n >= 10:
		return "10-11"
	case n >= 8:
		return "8-9"
	case n >= 6:
		return "6-7"
	case n >= 4:
		return "4-5"
	default:
		return "0-3"
	}
}
