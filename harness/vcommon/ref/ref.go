// Package ref holds reference implementations written from the published
// documents (manifest-format, keep-clients, blob.rb), sharing no code with the
// implementations under test.
package ref

import (
	"crypto/hmac"
	"crypto/md5"
	"crypto/sha1"
	"encoding/hex"
	"fmt"
	"sort"
	"strconv"
	"strings"
)

// BlobSignature is services/api/app/models/blob.rb generate_signature:
// OpenSSL::HMAC.hexdigest('sha1', key, [hash, token, timestamp, ttl].join('@')).
func BlobSignature(key []byte, hash, token, expiryHex, ttlHex string) string {
	msg := strings.Join([]string{hash, token, expiryHex, ttlHex}, "@")
	m := hmac.New(sha1.New, key)
	m.Write([]byte(msg))
	return hex.EncodeToString(m.Sum(nil))
}

// TTLHex is BlobSigningTTL.to_i.to_s(16).
func TTLHex(ttlSeconds int64) string { return strconv.FormatInt(ttlSeconds, 16) }

// SaltedSecret is the hex HMAC-SHA1 of the remote cluster id keyed with the secret.
func SaltedSecret(secret, remote string) string {
	m := hmac.New(sha1.New, []byte(secret))
	m.Write([]byte(remote))
	return hex.EncodeToString(m.Sum(nil))
}

// IsHex40 reports whether s is 40 lowercase-or-uppercase hex digits.
func IsHex40(s string) bool {
	if len(s) != 40 {
		return false
	}
	for i := 0; i < len(s); i++ {
		c := s[i]
		if !(c >= '0' && c <= '9' || c >= 'a' && c <= 'f' || c >= 'A' && c <= 'F') {
			return false
		}
	}
	return true
}

// MD5Hex returns the lowercase hex MD5 of b.
func MD5Hex(b []byte) string {
	s := md5.Sum(b)
	return hex.EncodeToString(s[:])
}

// Locator returns hash+size for content.
func Locator(b []byte) string { return fmt.Sprintf("%s+%d", MD5Hex(b), len(b)) }

// IsLocatorToken: a manifest token is a block locator iff it starts with 32
// hex digits followed by +digits (per the published format, hints follow).
func IsLocatorToken(tok string) bool {
	if len(tok) < 34 {
		return false
	}
	for i := 0; i < 32; i++ {
		c := tok[i]
		if !(c >= '0' && c <= '9' || c >= 'a' && c <= 'f') {
			return false
		}
	}
	if tok[32] != '+' {
		return false
	}
	j := 33
	for j < len(tok) && tok[j] >= '0' && tok[j] <= '9' {
		j++
	}
	if j == 33 {
		return false
	}
	return j == len(tok) || tok[j] == '+'
}

// StripHints reduces a locator token to hash+size.
func StripHints(tok string) string {
	parts := strings.Split(tok, "+")
	if len(parts) < 2 {
		return tok
	}
	return parts[0] + "+" + parts[1]
}

// PDH is the portable data hash of a manifest text: MD5 and length of the text
// with every locator token reduced to hash+size.
func PDH(manifest string) string {
	stripped := StripManifest(manifest)
	return fmt.Sprintf("%s+%d", MD5Hex([]byte(stripped)), len(stripped))
}

// StripManifest reduces every locator token of the text to hash+size leaving
// all other bytes (including whitespace) untouched.
func StripManifest(manifest string) string {
	var out strings.Builder
	i := 0
	for i < len(manifest) {
		j := i
		for j < len(manifest) && manifest[j] != ' ' && manifest[j] != '\n' {
			j++
		}
		tok := manifest[i:j]
		if IsLocatorToken(tok) {
			out.WriteString(StripHints(tok))
		} else {
			out.WriteString(tok)
		}
		if j < len(manifest) {
			out.WriteByte(manifest[j])
		}
		i = j + 1
	}
	return out.String()
}

// RendezvousOrder returns the service UUIDs sorted by descending hex
// MD5(hash + last 15 characters of the 27-character uuid) (whole uuid for
// other lengths), as doc/architecture/keep-clients documents.
func RendezvousOrder(hash string, uuids []string) []string {
	type ent struct{ uuid, w string }
	ents := make([]ent, len(uuids))
	for i, u := range uuids {
		s := u
		if len(u) == 27 {
			s = u[12:]
		}
		ents[i] = ent{u, MD5Hex([]byte(hash + s))}
	}
	sort.SliceStable(ents, func(i, j int) bool { return ents[i].w > ents[j].w })
	out := make([]string, len(ents))
	for i, e := range ents {
		out[i] = e.uuid
	}
	return out
}
