// Package fedgen holds the generator pieces and the reference relations shared
// by the C18 harnesses (lib/controller/federation and lib/controller): manifest
// decoration with signature look-alikes, single-token tamperings, requested-id
// variants and the reference "+A -> +R<cluster>-" rewrite. It imports nothing
// from arvados.
package fedgen

import (
	"fmt"
	"strings"

	"pgregory.net/rapid"
	"verif.local/vcommon/mgen"
	"verif.local/vcommon/ref"
)

const hexdigits = "0123456789abcdef"

func hexN(t *rapid.T, n int, label string) string {
	return rapid.StringOfN(rapid.RuneFrom([]rune(hexdigits)), n, n, n).Draw(t, label)
}

// SigHint draws "+A<40 hex>@<8 hex>".
func SigHint(t *rapid.T, label string) string {
	return "+A" + hexN(t, 40, label+"Sig") + "@" + rapid.StringMatching(`[67][0-9a-f]{7}`).Draw(t, label+"Exp")
}

// ClusterIDs draws n+1 distinct 5-character cluster ids (index 0 = local).
func ClusterIDs(t *rapid.T, n int) []string {
	pool := []string{"zaaaa", "zbbbb", "zcccc", "zdddd", "zeeee", "abcde", "a1b2c", "00000", "fffff", "x9x9x"}
	perm := rapid.Permutation(pool).Draw(t, "clusterIDs")
	return perm[:n+1]
}

// Decorate adds, in place, the shapes the shared grammar generator does not
// produce but the rewrite relation of C18 speaks about: file and stream names
// that contain "+A…" (must NOT be rewritten), file names that look like whole
// signed locators, locators that already carry a remote signature (+R…), and
// (optionally) locators with two +A hints. Validity of the manifest is kept:
// only name suffixes and hints change.
func Decorate(t *rapid.T, m *mgen.Manifest, allowDoubleA bool) (labels []string) {
	seen := map[string]bool{}
	add := func(l string) {
		if !seen[l] {
			seen[l] = true
			labels = append(labels, l)
		}
	}
	for si := range m.Streams {
		s := &m.Streams[si]
		if s.Name != "." && rapid.IntRange(0, 5).Draw(t, "decStream") == 0 {
			suf := rapid.SampledFrom([]string{"+Afoo", "+A0123456789abcdef0123456789abcdef01234567@6fffffff", "+A"}).Draw(t, "decStreamSuf")
			s.Name += suf
			s.Esc += suf
			add("deco:stream-name-with-+A")
		}
		for fi := range s.Files {
			f := &s.Files[fi]
			switch rapid.IntRange(0, 11).Draw(t, "decFile") {
			case 0:
				suf := rapid.SampledFrom([]string{"+Afoo", "+A0123456789abcdef0123456789abcdef01234567@6fffffff", "+A", "+Zx+Ay"}).Draw(t, "decFileSuf")
				f.Name += suf
				f.Esc += suf
				add("deco:file-name-with-+A")
			case 1:
				// a file whose whole name is a signed locator
				nm := hexN(t, 32, "decFileHash") + "+" + fmt.Sprint(rapid.IntRange(0, 99).Draw(t, "decFileSz")) + SigHint(t, "decFileSig")
				// keep it unique within the manifest by suffixing the original
				// (plain) position in the stream
				nm += fmt.Sprintf("+Z%d_%d", si, fi)
				f.Name = nm
				f.Esc = nm
				add("deco:file-name-is-signed-locator")
			}
		}
		for bi := range s.Blocks {
			b := &s.Blocks[bi]
			switch rapid.IntRange(0, 11).Draw(t, "decBlk") {
			case 0:
				b.Hints += "+R" + rapid.SampledFrom([]string{"zqqqq", "zaaaa", "abcde"}).Draw(t, "decBlkR") + "-" + hexN(t, 40, "decBlkRSig") + "@" + hexN(t, 8, "decBlkRExp")
				add("deco:locator-with-+R")
			case 1:
				if allowDoubleA && strings.Contains(b.Hints, "+A") {
					b.Hints += SigHint(t, "decBlkA2")
					add("deco:locator-with-two-+A")
				}
			}
		}
	}
	return
}

// SignAll gives every locator that has no +A hint one (what an API server does
// when it returns a collection to an authorised reader).
func SignAll(t *rapid.T, m *mgen.Manifest) {
	for si := range m.Streams {
		for bi := range m.Streams[si].Blocks {
			b := &m.Streams[si].Blocks[bi]
			if !strings.Contains(b.Hints, "+A") {
				b.Hints += SigHint(t, "signAll")
			}
		}
	}
}

// RefRewrite is the reference relation of the property's second sentence: in
// every locator token (and only there) each hint "+A<rest>" becomes
// "+R<cluster>-<rest>"; every other byte of the text is kept.
func RefRewrite(text, cluster string) string {
	toks, seps := mgen.Tokens(text)
	var sb strings.Builder
	for i, tok := range toks {
		if ref.IsLocatorToken(tok) {
			parts := strings.Split(tok, "+")
			for j := 2; j < len(parts); j++ {
				if strings.HasPrefix(parts[j], "A") {
					parts[j] = "R" + cluster + "-" + parts[j][1:]
				}
			}
			tok = strings.Join(parts, "+")
		}
		sb.WriteString(tok)
		sb.WriteString(seps[i])
	}
	return sb.String()
}

// CountSigned returns the number of locator tokens carrying a +A hint.
func CountSigned(text string) (n int) {
	toks, _ := mgen.Tokens(text)
	for _, tok := range toks {
		if ref.IsLocatorToken(tok) && strings.Contains(tok, "+A") {
			n++
		}
	}
	return
}

// DiffTokens describes the first difference between two texts token-wise.
func DiffTokens(got, want string) string {
	gt, gs := mgen.Tokens(got)
	wt, ws := mgen.Tokens(want)
	if len(gt) != len(wt) {
		return fmt.Sprintf("token count %d != %d", len(gt), len(wt))
	}
	for i := range gt {
		if gt[i] != wt[i] {
			return fmt.Sprintf("token %d: got %q want %q", i, gt[i], wt[i])
		}
		if gs[i] != ws[i] {
			return fmt.Sprintf("separator after token %d (%q): got %q want %q", i, gt[i], gs[i], ws[i])
		}
	}
	if got != want {
		return "texts differ in leading bytes"
	}
	return ""
}

// Base returns hash+size of a requested id (the part before any hints).
func Base(req string) string {
	parts := strings.SplitN(req, "+", 3)
	if len(parts) < 2 {
		return req
	}
	return parts[0] + "+" + parts[1]
}

func flipHex(t *rapid.T, s string, label string) string {
	// change exactly one hex digit of s (s is all hex)
	i := rapid.IntRange(0, len(s)-1).Draw(t, label+"Pos")
	c := s[i]
	for {
		d := hexdigits[rapid.IntRange(0, 15).Draw(t, label+"Digit")]
		if d != c {
			return s[:i] + string(d) + s[i+1:]
		}
	}
}

func changeDigits(t *rapid.T, s string, label string) string {
	// s is a decimal number; return a different decimal string
	switch rapid.IntRange(0, 4).Draw(t, label+"How") {
	case 0:
		return s + rapid.SampledFrom([]string{"0", "1", "7"}).Draw(t, label+"App")
	case 1:
		if len(s) > 1 {
			return s[:len(s)-1]
		}
		return s + "0"
	case 2:
		if len(s) > 1 {
			return s[1:]
		}
		return "1" + s
	case 3:
		var n int64
		fmt.Sscan(s, &n)
		return fmt.Sprint(n + 1)
	default:
		var n int64
		fmt.Sscan(s, &n)
		if n > 0 {
			return fmt.Sprint(n - 1)
		}
		return fmt.Sprint(n + 2)
	}
}

// ReqID draws a requested id from the true portable data hash.
// kind ∈ exact, hints, hexflip, size, length. withHints=false restricts to
// forms without trailing hints (the legacy URL pattern admits none).
func ReqID(t *rapid.T, pdh string, withHints bool) (id, kind string) {
	parts := strings.SplitN(pdh, "+", 2)
	hash, size := parts[0], parts[1]
	k := rapid.IntRange(0, 9).Draw(t, "reqKind")
	switch {
	case k <= 3:
		return pdh, "exact"
	case k <= 5:
		if !withHints {
			return pdh, "exact"
		}
		h := rapid.SampledFrom([]string{"+Zfoo", "+K@zzzzz", "+Zfoo+Bbar", "+A0123456789abcdef0123456789abcdef01234567@6fffffff", "+0", "+Rzbbbb-0123456789abcdef0123456789abcdef01234567@6fffffff"}).Draw(t, "reqHints")
		return pdh + h, "hints"
	case k == 6:
		return flipHex(t, hash, "reqFlip") + "+" + size, "hexflip"
	case k <= 8:
		sz := changeDigits(t, size, "reqSize")
		id = hash + "+" + sz
		if withHints && rapid.IntRange(0, 3).Draw(t, "reqSizeHints") == 0 {
			id += "+Zfoo"
		}
		return id, "size"
	default:
		if !withHints {
			return flipHex(t, hash, "reqFlip") + "+" + size, "hexflip"
		}
		if rapid.Bool().Draw(t, "reqLenShort") {
			return hash[:31] + "+" + size, "length"
		}
		return hash + hexN(t, 1, "reqLenExtra") + "+" + size, "length"
	}
}

// TamperKinds lists the single-token tamperings (plus "sigonly", which is not a
// tampering under the property: the portable data hash ignores hints).
var TamperKinds = []string{"blockswap", "size", "filetoken", "streamname", "whitespace", "sigonly"}

// Tamper applies one single-token change of the given kind to text. detail says
// what was done. If the kind is not applicable the text is returned with
// detail "" (callers then fall back to another answer kind).
func Tamper(t *rapid.T, text, kind string) (out, detail string) {
	toks, seps := mgen.Tokens(text)
	var streams, locs, files []int
	atLineStart := true
	for i, tok := range toks {
		switch {
		case atLineStart:
			streams = append(streams, i)
		case ref.IsLocatorToken(tok):
			locs = append(locs, i)
		default:
			files = append(files, i)
		}
		atLineStart = strings.Contains(seps[i], "\n")
	}
	join := func() string {
		var sb strings.Builder
		for i := range toks {
			sb.WriteString(toks[i])
			sb.WriteString(seps[i])
		}
		return sb.String()
	}
	pick := func(xs []int, label string) int {
		return xs[rapid.IntRange(0, len(xs)-1).Draw(t, label)]
	}
	switch kind {
	case "blockswap":
		if len(locs) == 0 {
			return text, ""
		}
		i := pick(locs, "tamperLoc")
		how := rapid.IntRange(0, 2).Draw(t, "tamperBlockHow")
		if how == 0 && len(locs) > 1 {
			// take the hash+size of another block, keep own hints
			j := pick(locs, "tamperLoc2")
			if ref.StripHints(toks[j]) != ref.StripHints(toks[i]) {
				rest := strings.TrimPrefix(toks[i], ref.StripHints(toks[i]))
				toks[i] = ref.StripHints(toks[j]) + rest
				return join(), fmt.Sprintf("locator %d takes hash+size of locator %d", i, j)
			}
		}
		if how == 1 {
			// swap with the neighbouring locator
			for _, j := range locs {
				if j == i+1 && ref.StripHints(toks[j]) != ref.StripHints(toks[i]) {
					toks[i], toks[j] = toks[j], toks[i]
					return join(), fmt.Sprintf("locators %d and %d swapped", i, j)
				}
			}
		}
		toks[i] = flipHex(t, toks[i][:32], "tamperHash") + toks[i][32:]
		return join(), fmt.Sprintf("one hex digit of locator %d changed", i)
	case "size":
		if len(locs) == 0 {
			return text, ""
		}
		i := pick(locs, "tamperLoc")
		parts := strings.Split(toks[i], "+")
		parts[1] = changeDigits(t, parts[1], "tamperSize")
		toks[i] = strings.Join(parts, "+")
		return join(), fmt.Sprintf("size of locator %d changed", i)
	case "filetoken":
		if len(files) == 0 {
			return text, ""
		}
		i := pick(files, "tamperFile")
		parts := strings.SplitN(toks[i], ":", 3)
		if len(parts) != 3 {
			return text, ""
		}
		switch rapid.IntRange(0, 2).Draw(t, "tamperFileHow") {
		case 0:
			parts[0] = changeDigits(t, parts[0], "tamperFilePos")
		case 1:
			parts[1] = changeDigits(t, parts[1], "tamperFileSize")
		default:
			parts[2] = parts[2] + rapid.SampledFrom([]string{"x", ".bak", "\\040", "+A"}).Draw(t, "tamperFileName")
		}
		toks[i] = strings.Join(parts, ":")
		return join(), fmt.Sprintf("file token %d changed to %q", i, toks[i])
	case "streamname":
		i := pick(streams, "tamperStream")
		if toks[i] == "." {
			toks[i] = "./renamed"
		} else {
			toks[i] = toks[i] + rapid.SampledFrom([]string{"x", "/sub", "\\040"}).Draw(t, "tamperStreamSuf")
		}
		return join(), fmt.Sprintf("stream token %d renamed to %q", i, toks[i])
	case "whitespace":
		how := rapid.IntRange(0, 7).Draw(t, "tamperWsHow")
		// separator positions: seps[i] follows toks[i]
		i := rapid.IntRange(0, len(seps)-1).Draw(t, "tamperWsPos")
		switch how {
		case 0:
			seps[i] = seps[i] + " "
			return join(), fmt.Sprintf("extra space after token %d", i)
		case 1:
			if seps[i] == " " {
				seps[i] = "\n"
				return join(), fmt.Sprintf("space after token %d became newline", i)
			}
			seps[i] = " "
			return join(), fmt.Sprintf("newline after token %d became space", i)
		case 2:
			if seps[i] == " " {
				seps[i] = "\t"
				return join(), fmt.Sprintf("space after token %d became tab", i)
			}
			seps[i] = "\n\n"
			return join(), fmt.Sprintf("newline after token %d doubled", i)
		case 3:
			seps[len(seps)-1] = ""
			return join(), "final newline dropped"
		case 4:
			seps[len(seps)-1] = "\n\n"
			return join(), "extra final newline"
		case 5:
			if seps[i] == "\n" {
				seps[i] = "\r\n"
				return join(), fmt.Sprintf("newline after token %d became CRLF", i)
			}
			seps[i] = "  "
			return join(), fmt.Sprintf("double space after token %d", i)
		case 6:
			return " " + join(), "leading space"
		default:
			seps[len(seps)-1] = "\n "
			return join(), "trailing space after final newline"
		}
	case "sigonly":
		var signed []int
		for _, i := range locs {
			if strings.Contains(toks[i], "+A") {
				signed = append(signed, i)
			}
		}
		how := rapid.IntRange(0, 3).Draw(t, "tamperSigHow")
		if len(signed) == 0 || how == 3 {
			if len(locs) == 0 {
				return text, ""
			}
			i := pick(locs, "tamperLoc")
			toks[i] += rapid.SampledFrom([]string{"+Zextra", "+K@zzzzz"}).Draw(t, "tamperSigAdd")
			return join(), fmt.Sprintf("hint added to locator %d", i)
		}
		i := pick(signed, "tamperSigLoc")
		parts := strings.Split(toks[i], "+")
		for j := 2; j < len(parts); j++ {
			if !strings.HasPrefix(parts[j], "A") {
				continue
			}
			switch how {
			case 0:
				at := strings.Index(parts[j], "@")
				if at > 1 {
					parts[j] = "A" + flipHex(t, parts[j][1:at], "tamperSigHex") + parts[j][at:]
				}
			case 1:
				at := strings.Index(parts[j], "@")
				if at > 0 && at+1 < len(parts[j]) {
					parts[j] = parts[j][:at+1] + flipHex(t, parts[j][at+1:], "tamperSigExp")
				}
			default:
				parts = append(parts[:j], parts[j+1:]...)
			}
			break
		}
		toks[i] = strings.Join(parts, "+")
		return join(), fmt.Sprintf("signature of locator %d changed/dropped", i)
	}
	return text, ""
}

// ---------------------------------------------------------------- large manifests

// BigInfo describes what Inflate added.
type BigInfo struct {
	Streams  int    // number of long streams added
	Seed     uint64 // everything in the long streams is a function of Seed and Blocks
	Blocks   []int  // locators per long stream
	MaxLine  int    // length in bytes of the longest stream line of the manifest
	Lines64  int    // stream lines longer than 64 KiB
	Lines128 int    // stream lines longer than 128 KiB
}

// Labels returns histogram labels for the sizes reached.
func (b BigInfo) Labels() []string {
	if b.Streams == 0 {
		return nil
	}
	l := []string{"big:manifest", fmt.Sprintf("big:long-streams=%d", b.Streams)}
	if b.Lines64 > 0 {
		l = append(l, "big:line>64KiB")
	}
	if b.Lines128 > 0 {
		l = append(l, "big:line>128KiB")
	}
	if b.Lines64 >= 2 {
		l = append(l, "big:several-lines>64KiB")
	}
	if b.MaxLine > 256<<10 {
		l = append(l, "big:line>256KiB")
	}
	return l
}

func (b BigInfo) String() string {
	return fmt.Sprintf("long streams: %d (seed %#x, locators per stream %v, longest line %d bytes)", b.Streams, b.Seed, b.Blocks, b.MaxLine)
}

type splitmix uint64

func (s *splitmix) next() uint64 {
	*s += 0x9e3779b97f4a7c15
	z := uint64(*s)
	z = (z ^ (z >> 30)) * 0xbf58476d1ce4e5b9
	z = (z ^ (z >> 27)) * 0x94d049bb133111eb
	return z ^ (z >> 31)
}

// Inflate inserts 1-3 long streams into m: each is one stream line with
// hundreds to thousands of signed locators, so that the line is longer than
// 64 KiB (mostly) or 128 KiB (often). Stream names, block sizes (1-3 digits)
// and the position among the other streams vary, so that token boundaries fall
// on every offset relative to any fixed buffer size. The content of the long
// streams is a deterministic function of a drawn seed and the drawn counts
// (drawing ~10^5 hex digits one by one would cost more than the test itself).
// With allSigned every added locator carries exactly one +A hint; otherwise
// about one in eight is unsigned, carries another hint, or a second signature.
func Inflate(t *rapid.T, m *mgen.Manifest, allSigned bool) BigInfo {
	info := BigInfo{Seed: rapid.Uint64().Draw(t, "bigSeed")}
	rng := splitmix(info.Seed)
	info.Streams = rapid.SampledFrom([]int{1, 1, 1, 2, 2, 3}).Draw(t, "bigStreams")
	hex := func(n int) string {
		var sb strings.Builder
		for sb.Len() < n {
			fmt.Fprintf(&sb, "%016x", rng.next())
		}
		return sb.String()[:n]
	}
	for k := 0; k < info.Streams; k++ {
		// a locator token is about 87 bytes: 753 make 64 KiB, 1507 make 128 KiB
		// (most long streams sit just above one of the two sizes; rapid draws
		// the first elements of a list more often, which is wanted here)
		var nblk int
		switch rapid.SampledFrom([]string{"64K", "128K", "64K", "128K", "64K", "128K", "<64K", "between", "beyond", "beyond", "huge"}).Draw(t, "bigBand") {
		case "<64K":
			nblk = rapid.IntRange(600, 745).Draw(t, "bigBlocks") // just below 64 KiB
		case "64K":
			nblk = rapid.IntRange(746, 800).Draw(t, "bigBlocks") // around and just above 64 KiB
		case "between":
			nblk = rapid.IntRange(801, 1480).Draw(t, "bigBlocks")
		case "128K":
			nblk = rapid.IntRange(1481, 1570).Draw(t, "bigBlocks") // around and just above 128 KiB
		case "beyond":
			nblk = rapid.IntRange(1571, 2400).Draw(t, "bigBlocks")
		default:
			nblk = rapid.IntRange(3000, 3300).Draw(t, "bigBlocks") // beyond 256 KiB
		}
		info.Blocks = append(info.Blocks, nblk)
		name := fmt.Sprintf("./big%d", k) + strings.Repeat("x", rapid.IntRange(0, 90).Draw(t, "bigNamePad"))
		s := mgen.Stream{Name: name, Esc: name}
		var total int64
		for i := 0; i < nblk; i++ {
			r := rng.next()
			n := int(r % 10)
			switch (r >> 8) % 4 {
			case 1:
				n = int(r>>16) % 100
			case 2, 3:
				n = int(r>>16) % 400
			}
			data := []byte(strings.Repeat(fmt.Sprintf("%x.", r), n/8+1)[:n])
			b := mgen.Block{Data: data}
			sig := "+A" + hex(40) + "@" + "6" + hex(7)
			if allSigned {
				b.Hints = sig
			} else {
				switch (r >> 40) % 32 {
				case 0:
					b.Hints = ""
				case 1:
					b.Hints = "+K@zzzzz"
				case 2:
					b.Hints = sig + "+Zbig"
				case 3:
					b.Hints = sig + "+A" + hex(40) + "@" + "7" + hex(7)
				default:
					b.Hints = sig
				}
			}
			s.Blocks = append(s.Blocks, b)
			total += int64(n)
		}
		half := total / 2
		s.Files = []mgen.FileTok{{Pos: 0, Size: half, Name: "bigfile.a", Esc: "bigfile.a"}, {Pos: half, Size: total - half, Name: "bigfile.b", Esc: "bigfile.b"}}
		pos := rapid.IntRange(0, len(m.Streams)).Draw(t, "bigPos")
		m.Streams = append(m.Streams[:pos], append([]mgen.Stream{s}, m.Streams[pos:]...)...)
	}
	for _, line := range strings.SplitAfter(m.Text(), "\n") {
		if len(line) > info.MaxLine {
			info.MaxLine = len(line)
		}
		if len(line) > 64<<10 {
			info.Lines64++
		}
		if len(line) > 128<<10 {
			info.Lines128++
		}
	}
	return info
}

// Abbrev shortens a long manifest for failure messages and samples.
func Abbrev(s string) string {
	if len(s) <= 1500 {
		return s
	}
	return fmt.Sprintf("%s …[%d bytes, reference PDH %s]… %s", s[:700], len(s), ref.PDH(s), s[len(s)-500:])
}
