// Package c19 holds what the C19 harnesses (four different arvados packages)
// share: the token generator, the reference model of "what may be forwarded
// to remote cluster R for this token", the disclosure scanner and a loopback
// server that records the raw bytes of every request it receives.
//
// Nothing here imports arvados code. The only knowledge shared with the
// implementation is the token format itself ("v2/<uuid>/<secret>[/...]",
// legacy = [0-9a-z]{41,}) and the salt definition in vcommon/ref.
package c19

import (
	"encoding/base64"
	"encoding/json"
	"fmt"
	"net/url"
	"regexp"
	"sort"
	"strings"

	"pgregory.net/rapid"
	"verif.local/vcommon/ref"
)

const (
	Hex = "0123456789abcdef"
	B36 = "0123456789abcdefghijklmnopqrstuvwxyz"
	// printable ASCII without space and without "/" (the token separator)
	Printable = "!\"#$%&'()*+,-.0123456789:;<=>?@ABCDEFGHIJKLMNOPQRSTUVWXYZ[\\]^_`abcdefghijklmnopqrstuvwxyz{|}~"
	AlNum     = "0123456789ABCDEFGHIJKLMNOPQRSTUVWXYZabcdefghijklmnopqrstuvwxyz"
)

type Kind int

const (
	KindV2 Kind = iota
	KindLegacy
	KindOpaque
)

func (k Kind) String() string { return [...]string{"v2", "legacy", "opaque"}[k] }

// Token is a presented token string with its reference parse.
type Token struct {
	Raw    string
	Kind   Kind
	UUID   string // v2 only
	Secret string // v2: third segment; legacy: the whole token; opaque: ""
	Extra  bool   // v2 with more than three segments
}

var reLegacy = regexp.MustCompile(`^[0-9a-z]{41,}$`)

// Parse is the reference reading of a token string.
func Parse(raw string) Token {
	seg := strings.Split(raw, "/")
	if len(seg) >= 3 && seg[0] == "v2" {
		return Token{Raw: raw, Kind: KindV2, UUID: seg[1], Secret: seg[2], Extra: len(seg) > 3}
	}
	if reLegacy.MatchString(raw) {
		return Token{Raw: raw, Kind: KindLegacy, Secret: raw}
	}
	return Token{Raw: raw, Kind: KindOpaque}
}

func isLowerHex40(s string) bool {
	return ref.IsHex40(s) && s == strings.ToLower(s)
}

// SecretClass describes a v2 secret with respect to the "already salted" rule.
//
//	"salt"      40 lower-case hex digits: a salt, exempt from non-disclosure
//	"salt?"     40 hex digits with upper-case letters: the property does not say
//	            whether that counts as a salt; either treatment is accepted
//	"40nonhex"  exactly 40 characters, not 40 hex digits: must be salted (F5)
//	"plain"     any other length: must be salted
func (tk Token) SecretClass() string {
	switch {
	case tk.Kind != KindV2:
		return ""
	case isLowerHex40(tk.Secret):
		return "salt"
	case ref.IsHex40(tk.Secret):
		return "salt?"
	case len(tk.Secret) == 40:
		return "40nonhex"
	}
	return "plain"
}

// In40NonHexRegion is the predicate of the narrow known-finding classifier
// "c19-40char-nonhex-secret": v2 token, secret exactly 40 characters, not 40
// hex digits.
func (tk Token) In40NonHexRegion() bool { return tk.SecretClass() == "40nonhex" }

// BelongsTo reports whether a v2 token's uuid carries cluster id r as prefix.
func BelongsTo(uuid, r string) bool { return strings.HasPrefix(uuid, r) }

// Salted returns the reference salted form of a v2 token for remote r.
func Salted(uuid, secret, r string) string {
	return "v2/" + uuid + "/" + ref.SaltedSecret(secret, r)
}

// Resolution is what the local cluster answers when asked about a bare
// (legacy-format or opaque) token.
//
//	200  found
//	401  explicit "unknown token"
//	403  the token is valid but scope-restricted (so it IS a token of this
//	     cluster; UUID is set)
//	404, 422, 429, 500, 502, 503  the lookup was answered with that status
//	StatusConnError  the lookup failed without any answer (connection error)
//
// Only 200 resolves the token and only 401 says that it is not ours; after
// every other answer nothing that contains the raw token may go to a remote.
type Resolution struct {
	Status int
	UUID   string // api_client_authorization uuid when found (200, 403)
}

// StatusConnError stands for "no HTTP answer at all".
const StatusConnError = -1

// LookupFailures are the answers other than 200 and 401.
var LookupFailures = []int{500, 403, 404, 422, 429, 502, 503, StatusConnError}

// Forward is the reference answer to "what may reach remote r for this token".
type Forward struct {
	// Accept lists the acceptable forwarded token strings (one, or two for
	// the "salt?" class). Empty when nothing may be forwarded (Error).
	Accept []string
	// Error: the lookup failed, nothing can be forwarded for this token.
	Error bool
	// Protected is the secret that must not occur in anything sent to r
	// ("" when the token carries none that the property protects).
	Protected string
	// Shape names the branch, for labels.
	Shape string
}

// ForwardFor computes the reference forwarding decision of the token-mapping
// step (saltedTokenProvider level). res is consulted for legacy tokens only.
func ForwardFor(tk Token, r string, res Resolution) Forward {
	switch tk.Kind {
	case KindV2:
		switch tk.SecretClass() {
		case "salt":
			return Forward{Accept: []string{tk.Raw}, Shape: "v2-salt-asis"}
		case "salt?":
			return Forward{Accept: []string{tk.Raw, Salted(tk.UUID, tk.Secret, r)}, Shape: "v2-upperhex40"}
		case "40nonhex":
			return Forward{Accept: []string{Salted(tk.UUID, tk.Secret, r)}, Protected: tk.Secret, Shape: "v2-40nonhex-salted"}
		}
		return Forward{Accept: []string{Salted(tk.UUID, tk.Secret, r)}, Protected: tk.Secret, Shape: "v2-salted"}
	case KindLegacy:
		switch {
		case res.Status == 401:
			// Not a token of this cluster: the property is silent, the
			// implementation passes it on ("assume the remote issued it").
			return Forward{Accept: []string{tk.Raw}, Shape: "legacy-unknown-asis"}
		case res.Status != 200:
			return Forward{Error: true, Protected: tk.Raw, Shape: "legacy-lookup-error"}
		case BelongsTo(res.UUID, r):
			return Forward{Accept: []string{tk.Raw}, Shape: "legacy-remote-owned-asis"}
		}
		return Forward{Accept: []string{Salted(res.UUID, tk.Raw, r)}, Protected: tk.Raw, Shape: "legacy-salted"}
	}
	return Forward{Accept: []string{tk.Raw}, Shape: "opaque-asis"}
}

func (f Forward) Accepts(got string) bool {
	for _, a := range f.Accept {
		if a == got {
			return true
		}
	}
	return false
}

// ---------------------------------------------------------------- generators

func str(t *rapid.T, alphabet string, n int, label string) string {
	return rapid.StringOfN(rapid.RuneFrom([]rune(alphabet)), n, n, n).Draw(t, label)
}

// DrawClusterID draws a 5-character cluster id.
func DrawClusterID(t *rapid.T, label string) string {
	if rapid.IntRange(0, 3).Draw(t, label+"Fixed") == 0 {
		return rapid.SampledFrom([]string{"zzzzz", "aaaaa", "z0000", "9tee4", "00000"}).Draw(t, label)
	}
	return str(t, B36, 5, label)
}

// DrawDistinctIDs draws n pairwise different cluster ids.
func DrawDistinctIDs(t *rapid.T, n int, label string) []string {
	var ids []string
	for len(ids) < n {
		id := DrawClusterID(t, fmt.Sprintf("%s%d", label, len(ids)))
		dup := false
		for _, x := range ids {
			dup = dup || x == id
		}
		if dup {
			// derive a different id deterministically
			b := []byte(id)
			for dup {
				b[4] = B36[(strings.IndexByte(B36, b[4])+1)%36]
				dup = false
				for _, x := range ids {
					dup = dup || x == string(b)
				}
			}
			id = string(b)
		}
		ids = append(ids, id)
	}
	return ids
}

// DrawSecretLen: dense around 39-41, the rest spread over 1..80.
func DrawSecretLen(t *rapid.T, label string) int {
	switch rapid.IntRange(0, 19).Draw(t, label+"Band") {
	case 0, 1:
		return 39
	case 2, 3:
		return 40
	case 4, 5:
		return 41
	case 6, 7, 8:
		return rapid.SampledFrom([]int{49, 50, 50, 50, 51}).Draw(t, label)
	case 9:
		return rapid.IntRange(1, 8).Draw(t, label)
	case 10:
		return rapid.IntRange(36, 44).Draw(t, label)
	default:
		return rapid.IntRange(1, 80).Draw(t, label)
	}
}

// DrawSecret draws a v2 secret. At length 40 about two thirds are real salts
// (lower-case hex), so that the F5 region (40 characters, not hex) stays a
// small minority of all cases.
func DrawSecret(t *rapid.T, label string) string {
	n := DrawSecretLen(t, label+"Len")
	a := rapid.IntRange(0, 19).Draw(t, label+"Alpha")
	if n == 40 {
		switch {
		case a < 13:
			return str(t, Hex, n, label)
		case a == 13:
			s := str(t, Hex, n, label)
			return strings.ToUpper(s[:20]) + s[20:] // may stay lower-case if no letters: still a salt
		case a < 18:
			return str(t, B36, n, label)
		case a == 18:
			return str(t, AlNum, n, label)
		}
		return str(t, Printable, n, label)
	}
	switch {
	case a < 6:
		return str(t, Hex, n, label)
	case a < 14:
		return str(t, B36, n, label)
	case a < 16:
		return str(t, AlNum, n, label)
	}
	return str(t, Printable, n, label)
}

// DrawUUID draws the uuid segment of a v2 token. ids are the cluster ids that
// matter in the scenario (remotes, local, ...).
func DrawUUID(t *rapid.T, ids []string, label string) string {
	prefix := "qqqqq"
	if k := rapid.IntRange(0, len(ids)).Draw(t, label+"Owner"); k < len(ids) {
		prefix = ids[k]
	}
	switch rapid.IntRange(0, 11).Draw(t, label+"Shape") {
	case 0:
		return prefix // bare cluster id
	case 1:
		return rapid.SampledFrom([]string{"", "x", prefix[:4], "-gj3su-", strings.ToUpper(prefix) + "-gj3su-000000000000000"}).Draw(t, label+"Odd")
	case 2:
		return prefix + "-gj3su-" + str(t, B36, rapid.IntRange(0, 20).Draw(t, label+"TailLen"), label+"Tail")
	}
	return prefix + "-gj3su-" + str(t, B36, 15, label+"Tail")
}

// DrawV2 draws a v2 token.
func DrawV2(t *rapid.T, ids []string, label string) Token {
	raw := "v2/" + DrawUUID(t, ids, label+"UUID") + "/" + DrawSecret(t, label+"Secret")
	switch rapid.IntRange(0, 11).Draw(t, label+"Extra") {
	case 0:
		raw += "/" + ids[0] + "-dz642-" + str(t, B36, 15, label+"Ctr")
	case 1:
		raw += rapid.SampledFrom([]string{"/", "//", "/x/y", "/" + strings.Repeat("0", 40)}).Draw(t, label+"ExtraOdd")
	}
	return Parse(raw)
}

// DrawLegacy draws a legacy-format token ([0-9a-z]{41,}).
func DrawLegacy(t *rapid.T, label string) Token {
	n := rapid.SampledFrom([]int{41, 41, 42, 49, 50, 50, 51, 64, 80}).Draw(t, label+"Len")
	alpha := B36
	if rapid.IntRange(0, 4).Draw(t, label+"Alpha") == 0 {
		alpha = Hex
	}
	return Parse(str(t, alpha, n, label))
}

// DrawOpaque draws a string that is neither a v2 nor a legacy token.
func DrawOpaque(t *rapid.T, label string) Token {
	var raw string
	switch rapid.IntRange(0, 8).Draw(t, label+"Shape") {
	case 0: // JWT shape
		b64 := AlNum + "-_"
		raw = "eyJ" + str(t, b64, rapid.IntRange(8, 40).Draw(t, label+"H"), label+"Hdr") + ".eyJ" +
			str(t, b64, rapid.IntRange(8, 60).Draw(t, label+"P"), label+"Pay") + "." + str(t, b64, 43, label+"Sig")
	case 1: // bare 1..40 lower-case alphanumerics: shorter than the legacy format
		raw = str(t, B36, rapid.SampledFrom([]int{1, 20, 39, 40, 40}).Draw(t, label+"Len"), label)
	case 2: // with slashes but not v2/x/y
		raw = rapid.SampledFrom([]string{"v1/", "V2/", "v2", "v3/", "a/b/", "/v2/", "v2 /"}).Draw(t, label+"Pre") +
			str(t, B36, rapid.IntRange(0, 50).Draw(t, label+"Len"), label)
	case 3: // only two segments
		raw = "v2/" + str(t, B36, rapid.IntRange(0, 60).Draw(t, label+"Len"), label)
	case 4: // legacy alphabet plus one upper-case letter or symbol
		s := str(t, B36, rapid.IntRange(41, 60).Draw(t, label+"Len"), label)
		i := rapid.IntRange(0, len(s)-1).Draw(t, label+"Pos")
		raw = s[:i] + rapid.SampledFrom([]string{"A", "Z", "-", "_", ".", "+", "="}).Draw(t, label+"Sym") + s[i+1:]
	case 5:
		raw = str(t, Printable, rapid.IntRange(1, 60).Draw(t, label+"Len"), label)
	default:
		raw = str(t, AlNum+"-_.", rapid.IntRange(1, 80).Draw(t, label+"Len"), label)
	}
	tk := Parse(raw)
	if tk.Kind != KindOpaque {
		// (e.g. the printable draw produced only [0-9a-z]{41,}) – make it opaque
		tk = Parse(raw + "=")
	}
	return tk
}

// DrawToken draws any token shape: ~62 % v2, ~19 % legacy, ~19 % opaque.
func DrawToken(t *rapid.T, ids []string, label string) Token {
	switch k := rapid.IntRange(0, 15).Draw(t, label+"Kind"); {
	case k < 10:
		return DrawV2(t, ids, label)
	case k < 13:
		return DrawLegacy(t, label)
	}
	return DrawOpaque(t, label)
}

// DrawTokens draws 1-3 tokens with pairwise different Raw strings and
// pairwise different secrets.
func DrawTokens(t *rapid.T, ids []string, label string) []Token {
	n := rapid.SampledFrom([]int{1, 1, 1, 2, 2, 3}).Draw(t, label+"N")
	var out []Token
	for i := 0; len(out) < n && i < 12; i++ {
		tk := DrawToken(t, ids, fmt.Sprintf("%s%d", label, i))
		dup := false
		for _, o := range out {
			dup = dup || o.Raw == tk.Raw || (tk.Secret != "" && o.Secret == tk.Secret)
		}
		if !dup {
			out = append(out, tk)
		}
	}
	return out
}

// DrawResolution draws what the local cluster answers for a legacy token.
func DrawResolution(t *rapid.T, ids []string, label string) Resolution {
	status := 200
	switch rapid.IntRange(0, 9).Draw(t, label+"Res") {
	case 0, 1:
		return Resolution{Status: 401}
	case 2, 3, 4:
		status = rapid.SampledFrom(LookupFailures).Draw(t, label+"Failure")
		if status != 403 {
			return Resolution{Status: status}
		}
	}
	prefix := "qqqqq"
	if k := rapid.IntRange(0, len(ids)).Draw(t, label+"Owner"); k < len(ids) {
		prefix = ids[k]
	}
	return Resolution{Status: status, UUID: prefix + "-gj3su-" + str(t, B36, 15, label+"UUID")}
}

// ---------------------------------------------------------------- disclosure

func jsonEsc(s string) string {
	b, _ := json.Marshal(s)
	return string(b[1 : len(b)-1])
}

// Needles returns the byte strings under which secret could travel in an HTTP
// request: verbatim, query/path escaped, JSON escaped, JSON-in-form escaped.
func Needles(secret string) []string {
	seen := map[string]bool{}
	var out []string
	add := func(s string) {
		if s != "" && !seen[s] {
			seen[s] = true
			out = append(out, s)
		}
	}
	add(secret)
	add(url.QueryEscape(secret))
	add(url.PathEscape(secret))
	add(jsonEsc(secret))
	add(url.QueryEscape(jsonEsc(secret)))
	return out
}

// MinScanLen is the shortest byte string searched for in captured requests.
// Shorter secrets occur by chance (in salts, uuids, other tokens), so for them
// the whole token "v2/<uuid>/<secret>" is searched instead when that is long
// enough, and nothing otherwise (the structural checks still apply).
const MinScanLen = 12

// ScanNeedle returns the string whose presence in a forwarded request means
// that the protected secret of tk was disclosed.
func ScanNeedle(tk Token, protected string) (string, bool) {
	switch {
	case protected == "":
		return "", false
	case len(protected) >= MinScanLen:
		return protected, true
	case tk.Kind == KindV2 && len(tk.UUID) >= 20:
		return "v2/" + tk.UUID + "/" + tk.Secret, true
	}
	return "", false
}

var reB64 = regexp.MustCompile(`[A-Za-z0-9+/_-]{8,}={0,2}`)

// Views returns raw plus the decodings of every base64-looking run in it
// (Basic credentials, token cookies), so that a secret riding in encoded form
// is seen as well.
func Views(raw []byte) [][]byte {
	views := [][]byte{raw}
	for _, m := range reB64.FindAll(raw, -1) {
		s := strings.TrimRight(string(m), "=")
		for _, enc := range []*base64.Encoding{base64.RawStdEncoding, base64.RawURLEncoding} {
			if dec, err := enc.DecodeString(s); err == nil && len(dec) > 0 {
				views = append(views, dec)
			}
		}
	}
	return views
}

// Mask removes every occurrence of the acceptable forwarded strings (and
// their escaped spellings) from raw, so that a secret which merely happens to
// be a substring of the legitimately forwarded salt is not counted.
func Mask(raw []byte, legit []string) []byte {
	s := string(raw)
	// longest first: a short legit string (a one-character opaque token, say)
	// must not break up a longer one before that is masked
	var needles []string
	for _, l := range legit {
		needles = append(needles, Needles(l)...)
	}
	sort.SliceStable(needles, func(i, j int) bool { return len(needles[i]) > len(needles[j]) })
	for _, n := range needles {
		s = strings.Replace(s, n, "\x00\x01\x00", -1)
	}
	return []byte(s)
}

// Occurrences counts how often secret (in any spelling) occurs in raw after
// masking the legit strings, over all views.
func Occurrences(raw []byte, secret string, legit []string) int {
	if secret == "" {
		return 0
	}
	n := 0
	for _, v := range Views(Mask(raw, legit)) {
		for _, needle := range Needles(secret) {
			n += strings.Count(string(v), needle)
		}
	}
	return n
}

// ---------------------------------------------------------------- control tokens

func rot(c byte, lo, hi byte) byte { return lo + (c-lo+1)%(hi-lo+1) }

// RotateSecret maps every character to a different character of the same
// class (digit, a-f, g-z, A-F, G-Z, symbol), so that length, alphabet and the
// hex/non-hex classification are preserved while no character stays.
func RotateSecret(s string) string {
	const sym = "!\"#$%&'()*+,-.:;<=>?@[\\]^_`{|}~"
	b := []byte(s)
	for i, c := range b {
		switch {
		case c >= '0' && c <= '9':
			b[i] = rot(c, '0', '9')
		case c >= 'a' && c <= 'f':
			b[i] = rot(c, 'a', 'f')
		case c >= 'g' && c <= 'z':
			b[i] = rot(c, 'g', 'z')
		case c >= 'A' && c <= 'F':
			b[i] = rot(c, 'A', 'F')
		case c >= 'G' && c <= 'Z':
			b[i] = rot(c, 'G', 'Z')
		default:
			if k := strings.IndexByte(sym, c); k >= 0 {
				b[i] = sym[(k+1)%len(sym)]
			}
		}
	}
	return string(b)
}

// Control returns a token of the same shape whose secret shares no position
// with tk's secret. Opaque tokens are returned unchanged.
func Control(tk Token) Token {
	switch tk.Kind {
	case KindV2:
		seg := strings.Split(tk.Raw, "/")
		seg[2] = RotateSecret(seg[2])
		return Parse(strings.Join(seg, "/"))
	case KindLegacy:
		return Parse(RotateSecret(tk.Raw))
	}
	return tk
}
