package c19

import (
	"bufio"
	"bytes"
	"fmt"
	"io"
	"net"
	"net/http"
	"sync"
)

// Captured is one request as it arrived on the wire.
type Captured struct {
	Raw    []byte // request line + headers + body, exactly as received
	Method string
	Target string // request-target of the request line
	Header http.Header
	Body   []byte
	Err    string // parse error, if any
}

// Responder decides the canned answer for a captured request. A status <= 0
// means: close the connection without answering (the client sees a
// connection error).
type Responder func(c *Captured) (status int, contentType string, body []byte)

// Recorder is a loopback HTTP/1.1 server that keeps the raw bytes of every
// request. It speaks keep-alive so that long runs do not exhaust ports.
type Recorder struct {
	Addr string // 127.0.0.1:port
	ln   net.Listener
	mu   sync.Mutex
	reqs []Captured
	resp Responder
}

// NewRecorder starts a recorder on an ephemeral loopback port.
func NewRecorder(resp Responder) (*Recorder, error) {
	ln, err := net.Listen("tcp", "127.0.0.1:0")
	if err != nil {
		return nil, err
	}
	r := &Recorder{Addr: ln.Addr().String(), ln: ln, resp: resp}
	go r.accept()
	return r, nil
}

func (r *Recorder) Close() { r.ln.Close() }

// SetResponder replaces the responder (call between cases only).
func (r *Recorder) SetResponder(resp Responder) {
	r.mu.Lock()
	r.resp = resp
	r.mu.Unlock()
}

// Take returns and clears what was captured so far.
func (r *Recorder) Take() []Captured {
	r.mu.Lock()
	defer r.mu.Unlock()
	out := r.reqs
	r.reqs = nil
	return out
}

func (r *Recorder) accept() {
	for {
		c, err := r.ln.Accept()
		if err != nil {
			return
		}
		go r.serve(c)
	}
}

type teeConn struct {
	net.Conn
	buf *bytes.Buffer
}

func (t *teeConn) Read(p []byte) (int, error) {
	n, err := t.Conn.Read(p)
	t.buf.Write(p[:n])
	return n, err
}

func (r *Recorder) serve(conn net.Conn) {
	defer conn.Close()
	tee := &teeConn{Conn: conn, buf: &bytes.Buffer{}}
	br := bufio.NewReader(tee)
	for {
		req, err := http.ReadRequest(br)
		if err != nil {
			if tee.buf.Len() > 0 {
				r.mu.Lock()
				r.reqs = append(r.reqs, Captured{Raw: append([]byte(nil), tee.buf.Bytes()...), Err: err.Error()})
				r.mu.Unlock()
			}
			return
		}
		body, berr := io.ReadAll(req.Body)
		// Clients here never pipeline: everything read so far is this request.
		cap := Captured{
			Raw:    append([]byte(nil), tee.buf.Bytes()...),
			Method: req.Method,
			Target: req.RequestURI,
			Header: req.Header,
			Body:   body,
		}
		if berr != nil {
			cap.Err = berr.Error()
		}
		tee.buf.Reset()
		r.mu.Lock()
		resp := r.resp
		r.mu.Unlock()
		status, ctype, rbody := 404, "application/json", []byte(`{"errors":["not found"]}`)
		if resp != nil {
			status, ctype, rbody = resp(&cap)
		}
		// Record before answering: once the client sees the response the
		// capture is visible to the test.
		r.mu.Lock()
		r.reqs = append(r.reqs, cap)
		r.mu.Unlock()
		if status <= 0 {
			return
		}
		if req.Method == "HEAD" {
			fmt.Fprintf(conn, "HTTP/1.1 %d %s\r\nContent-Type: %s\r\nContent-Length: %d\r\n\r\n", status, http.StatusText(status), ctype, len(rbody))
		} else {
			fmt.Fprintf(conn, "HTTP/1.1 %d %s\r\nContent-Type: %s\r\nContent-Length: %d\r\n\r\n%s", status, http.StatusText(status), ctype, len(rbody), rbody)
		}
		if berr != nil || req.Close {
			return
		}
	}
}
