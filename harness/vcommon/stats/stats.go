// Package stats collects what a property-test run actually covered and writes
// it as JSON to $VERIF_STATS so the driver can merge shards into the evidence
// file. It is linked into every harness binary.
package stats

import (
	"encoding/json"
	"fmt"
	"hash/fnv"
	"os"
	"sort"
	"strings"
	"sync"
)

const (
	maxFingerprints = 400000
	maxSamples      = 3
)

type collector struct {
	mu         sync.Mutex
	evals      int64
	nontrivial map[uint64]struct{}
	ntDropped  int64
	labels     map[string]int64
	samples    map[string][]interface{}
	known      map[string]int64
	knownEx    map[string][]string
	info       map[string]interface{}
	active     map[string]bool
}

var c = newCollector()

func newCollector() *collector {
	col := &collector{
		nontrivial: map[uint64]struct{}{},
		labels:     map[string]int64{},
		samples:    map[string][]interface{}{},
		known:      map[string]int64{},
		knownEx:    map[string][]string{},
		info:       map[string]interface{}{},
		active:     map[string]bool{},
	}
	for _, k := range strings.Split(os.Getenv("VERIF_KNOWN"), ",") {
		if k = strings.TrimSpace(k); k != "" {
			col.active[k] = true
		}
	}
	return col
}

// FP hashes a case description to a 64-bit fingerprint.
func FP(parts ...interface{}) uint64 {
	h := fnv.New64a()
	for _, p := range parts {
		fmt.Fprintf(h, "%v\x00", p)
	}
	return h.Sum64()
}

// Case records one executed case. fp identifies the case (for distinct
// counting); nontrivial says whether it met the property's stated rule.
func Case(fp uint64, nontrivial bool, labels ...string) {
	c.mu.Lock()
	defer c.mu.Unlock()
	c.evals++
	if nontrivial {
		if _, ok := c.nontrivial[fp]; !ok {
			if len(c.nontrivial) < maxFingerprints {
				c.nontrivial[fp] = struct{}{}
			} else {
				c.ntDropped++
			}
		}
	}
	for _, l := range labels {
		if l != "" {
			c.labels[l]++
		}
	}
}

// Label bumps a label counter without counting a case.
func Label(labels ...string) {
	c.mu.Lock()
	defer c.mu.Unlock()
	for _, l := range labels {
		if l != "" {
			c.labels[l]++
		}
	}
}

// Sample keeps the first few values recorded under a label.
func Sample(label string, v interface{}) {
	c.mu.Lock()
	defer c.mu.Unlock()
	if len(c.samples[label]) < maxSamples {
		c.samples[label] = append(c.samples[label], v)
	}
}

// WantSample reports whether Sample(label, …) would still store a value, so
// callers can avoid building expensive descriptions.
func WantSample(label string) bool {
	c.mu.Lock()
	defer c.mu.Unlock()
	return len(c.samples[label]) < maxSamples
}

// Known reports whether an oracle failure matching the classifier `key` is a
// listed (active) known finding. If it is, the hit is counted and the caller
// should let the case pass; if not, the caller must fail the case as usual.
func Known(key, detail string) bool {
	c.mu.Lock()
	defer c.mu.Unlock()
	if !c.active[key] {
		return false
	}
	c.known[key]++
	if len(c.knownEx[key]) < maxSamples {
		c.knownEx[key] = append(c.knownEx[key], detail)
	}
	return true
}

// KnownActive reports whether the classifier is active, without counting.
func KnownActive(key string) bool {
	c.mu.Lock()
	defer c.mu.Unlock()
	return c.active[key]
}

// Info stores a free-form value in the stats file.
func Info(key string, v interface{}) {
	c.mu.Lock()
	defer c.mu.Unlock()
	c.info[key] = v
}

// InfoAdd adds n to a numeric info counter.
func InfoAdd(key string, n int64) {
	c.mu.Lock()
	defer c.mu.Unlock()
	cur, _ := c.info[key].(int64)
	c.info[key] = cur + n
}

// Flush writes the collected stats to $VERIF_STATS (no-op when unset). It is
// idempotent and may be called from several test functions in one process.
func Flush() {
	path := os.Getenv("VERIF_STATS")
	if path == "" {
		return
	}
	c.mu.Lock()
	defer c.mu.Unlock()
	fps := make([]uint64, 0, len(c.nontrivial))
	for fp := range c.nontrivial {
		fps = append(fps, fp)
	}
	sort.Slice(fps, func(i, j int) bool { return fps[i] < fps[j] })
	fpstr := make([]string, len(fps))
	for i, fp := range fps {
		fpstr[i] = fmt.Sprintf("%016x", fp)
	}
	out := map[string]interface{}{
		"evaluations":        c.evals,
		"nontrivial_fps":     fpstr,
		"nontrivial_dropped": c.ntDropped,
		"labels":             c.labels,
		"samples":            c.samples,
		"known_hits":         c.known,
		"known_examples":     c.knownEx,
		"info":               c.info,
	}
	buf, err := json.Marshal(out)
	if err != nil {
		buf, _ = json.Marshal(map[string]interface{}{"error": err.Error(), "evaluations": c.evals})
	}
	tmp := path + ".tmp"
	if err := os.WriteFile(tmp, buf, 0644); err == nil {
		os.Rename(tmp, path)
	}
}
