#!/usr/bin/env python3
"""Sensitivity runner: apply textual mutants to a scratch worktree of /repo and
run the quick tier of the named check against it (VERIF_REPO). Usage:
   tools/mutants.py [--tier quick] [id-prefix ...]
Results are appended to /verif/notes/mutants.log (one line per mutant)."""
import subprocess, sys, os, json, time, shutil

VERIF = os.path.dirname(os.path.dirname(os.path.abspath(__file__)))
WT = '/tmp/wt-mutants-%d' % os.getpid()
FS = 'sdk/go/arvados/fs_collection.go'
FB = 'sdk/go/arvados/fs_base.go'
FH = 'sdk/go/arvados/fs_filehandle.go'
BS = 'sdk/go/arvados/blob_signature.go'
MF = 'sdk/go/manifest/manifest.go'
CO = 'sdk/go/arvados/collection.go'

M = [
 # id, property, file, old, new
 ('c07-drop-ttl', 'C07', BS, '\thmac.Write([]byte("@"))\n\thmac.Write([]byte(blobSignatureTTL))\n', ''),
 ('c07-casefold', 'C07', BS, 'if signatureHex != makePermSignature(blobHash, apiToken, expiryHex, blobSignatureTTLHex, permissionSecret) {', 'if !strings.EqualFold(signatureHex, makePermSignature(blobHash, apiToken, expiryHex, blobSignatureTTLHex, permissionSecret)) {'),
 ('c07-greedy-hint', 'C07', BS, r'mPermHintRe = regexp.MustCompile(`\+A[^+]*`)', r'mPermHintRe = regexp.MustCompile(`\+A.*`)'),
 ('c07-expiry-ignored', 'C07', BS, '} else if expiryTime.Before(time.Now()) {', '} else if false && expiryTime.Before(time.Now()) {'),
 ('c07-sign-only-first-token-char', 'C07', BS, 'blobHash := strings.Split(blobLocator, "+")[0]\n\ttimestampHex', 'blobHash := strings.Split(blobLocator, "+")[0][:31]\n\ttimestampHex'),
 ('c08-split-off-by-one', 'C08', FS, 'fn.segments[cur+2] = fn.segments[cur+2].Slice(ptr.segmentOff+len(cando), -1)', 'fn.segments[cur+2] = fn.segments[cur+2].Slice(ptr.segmentOff+len(cando)+1, -1)'),
 ('c08-forget-repacked', 'C08', FS, '\t\t\tptr.segmentIdx++\n\t\t\tptr.segmentOff = 0\n\t\t\tfn.repacked++\n\t\t\tptr.repacked++\n', '\t\t\tptr.segmentIdx++\n\t\t\tptr.segmentOff = 0\n'),
 ('c08-cando-clamp', 'C08', FS, '\t\t\t\tcando = cando[:el]\n\t\t\t\tcopy(fn.segments[cur:], fn.segments[cur+1:])', '\t\t\t\tcopy(fn.segments[cur:], fn.segments[cur+1:])'),
 ('c08-truncate-no-zero', 'C08', FS, '\t\tfor i := oldlen; i < n; i++ {\n\t\t\tme.buf[i] = 0\n\t\t}\n', '\t\t_ = oldlen\n'),
 ('c08-rename-into-self', 'C08', FB, '\t\tif locked[oldinode] {\n', '\t\tif false && locked[oldinode] {\n'),
 ('c08-append-no-reposition', 'C08', FH, 'if fn, ok := f.inode.(*filenode); ok && f.append {', 'if fn, ok := f.inode.(*filenode); ok && f.append && fn.fileinfo.size < 0 {'),
 ('c08-revert-self-rename-fix', 'C08', FB, '\t\tif olddirf.inode == newdirf.inode && oldname == newname {\n', '\t\tif false && olddirf.inode == newdirf.inode && oldname == newname {\n'),
 ('c08-revert-zero-seg-fix', 'C08', FS, '\t\t\t\tif blkLen > 0 {\n', '\t\t\t\tif blkLen >= 0 {\n'),
 ('c08-read-eof-early', 'C08', FS, '\t\t\tif ptr.segmentIdx < len(fn.segments) && err == io.EOF {\n\t\t\t\terr = nil\n\t\t\t}\n', ''),
 ('c09-commit-before-err', 'C09', FS, '\t\tlocator, _, err := dn.fs.PutB(block)\n\t\tdn.fs.throttle().Release()\n\t\tif err != nil {\n\t\t\terrs <- err\n\t\t\treturn\n\t\t}\n', '\t\tlocator, _, err := dn.fs.PutB(block)\n\t\tdn.fs.throttle().Release()\n\t\tif err != nil {\n\t\t\terrs <- err\n\t\t\tlocator = "d41d8cd98f00b204e9800998ecf8427e+0"\n\t\t}\n'),
 ('c09-prune-replace-on-error', 'C09', FS, '\t\t\tif err != nil {\n\t\t\t\t// TODO: stall (or return errors from)\n\t\t\t\t// subsequent writes until flushing\n\t\t\t\t// starts to succeed.\n\t\t\t\treturn\n\t\t\t}\n', '\t\t\tif err != nil {\n\t\t\t\tlocator = "d41d8cd98f00b204e9800998ecf8427e+0"\n\t\t\t}\n'),
 ('c09-no-empty-dir-marker', 'C09', FS, '\t\treturn manifestEscape(prefix) + " d41d8cd98f00b204e9800998ecf8427e+0 0:0:\\\\056\\n", nil\n', '\t\treturn "", nil\n'),
 ('c09-escape-no-backslash', 'C09', FS, 'var manifestEscapedChar = regexp.MustCompile(`[\\000-\\040:\\s\\\\]`)', 'var manifestEscapedChar = regexp.MustCompile(`[\\000-\\040:\\s]`)'),
 ('c09-flush-ignores-error', 'C09', FS, '\tif opts.shortBlocks {\n\t\tgoCommit(pending, pendingLen)\n\t}\n\treturn cg.Wait()\n', '\tif opts.shortBlocks {\n\t\tgoCommit(pending, pendingLen)\n\t}\n\tcg.Wait()\n\treturn nil\n'),
 ('c09-marshal-offset-reuse', 'C09', FS, '\t\t\t\t\tif len(blocks) > 0 && blocks[len(blocks)-1] == seg.locator {\n\t\t\t\t\t\tstreamLen -= int64(seg.size)\n', '\t\t\t\t\tif len(blocks) > 0 && blocks[len(blocks)-1] == seg.locator {\n'),
 ('c10-loader-blklen', 'C10', FS, '\t\t\t\t\tblkLen = int(offset + length - pos - int64(blkOff))\n', '\t\t\t\t\tblkLen = int(offset + length - pos - int64(blkOff)) + 1\n'),
 ('c10-pdh-keeps-hints', 'C10', CO, 'blkRe = regexp.MustCompile(`^ [0-9a-f]{32}\\+\\d+`)', 'blkRe = regexp.MustCompile(`^ [0-9a-f]{32}\\+\\d+(\\+Z[a-z]*)?`)'),
 ('c10-unescape-89', 'C10', MF, '\ti, err := strconv.ParseUint(seq[1:], 8, 8)\n\tif err != nil {\n\t\t// Invalid escape sequence: can\'t unescape.\n\t\treturn seq\n\t}\n\treturn string([]byte{byte(i)})\n}\n\nfunc EscapeName', '\ti, err := strconv.ParseUint(seq[1:], 10, 8)\n\tif err != nil {\n\t\t// Invalid escape sequence: can\'t unescape.\n\t\treturn seq\n\t}\n\treturn string([]byte{byte(i)})\n}\n\nfunc EscapeName'),
 ('c10-revert-firstblock', 'C10', MF, 'return offsets[i+1] > rangeStart', 'return offsets[i+1] >= rangeStart'),
 ('c10-revert-escape-backslash', 'C10', MF, "if c <= 32 || c == '\\\\' {", 'if c <= 32 {'),
 ('c10-py-firstblock-lt', 'C10', 'sdk/python/arvados/_ranges.py', 'data_locators[i].range_start + data_locators[i].range_size > range_start:', 'data_locators[i].range_start + data_locators[i].range_size >= range_start:'),
 ('c10-py-escape-colon', 'C10', 'sdk/python/arvados/_normalize_stream.py', "path = re.sub('\\\\\\\\', lambda m: '\\\\134', path)\n", ''),
 ('c10-extract-wrong-relocate', 'C10', MF, '\t\t\tmanifest += m[k].normalizedText(relocate + k[len(srcpath):])\n', '\t\t\tmanifest += m[k].normalizedText(relocate + k[len(prefix)-1:])\n'),
 ('c10-normalize-span-merge', 'C10', MF, '\t\t\t\tif streamoffset == spanEnd {\n', '\t\t\t\tif streamoffset <= spanEnd {\n'),
 ('c13-no-flushing-recheck', 'C13', FS, '\t\t\tif seg.flushing != done {\n\t\t\t\t// A new seg.buf has been allocated.\n\t\t\t\treturn\n\t\t\t}\n', ''),
 ('c13-writeat-in-place', 'C13', FS, '\tif me.flushing != nil {\n\t\tme.buf, me.flushing = append([]byte(nil), me.buf...), nil\n\t}\n\tcopy(me.buf[off:], p)', '\tcopy(me.buf[off:], p)'),
 ('c13-commit-no-revalidate', 'C13', FS, '\t\t\t\t} else if seg.flushing != done {\n\t\t\t\t\t// seg.buf has been replaced\n\t\t\t\t\tref.fn.Unlock()\n\t\t\t\t\tcontinue\n\t\t\t\t}\n', '\t\t\t\t}\n'),
 ('c13-rename-no-fs-lock', 'C13', FB, '\tcfs.locker().Lock()\n\tdefer cfs.locker().Unlock()\n', ''),
 ('c13-prune-len-check', 'C13', FS, 'if len(fn.segments) <= idx || fn.segments[idx] != seg || len(seg.buf) != len(buf) {', 'if len(fn.segments) <= idx || len(seg.buf) != len(buf) {'),
]

def sh(cmd, **kw):
    return subprocess.run(cmd, shell=True, capture_output=True, text=True, **kw)

def main():
    args = sys.argv[1:]
    tier = 'quick'
    if args[:1] == ['--tier']:
        tier = args[1]; args = args[2:]
    sel = [m for m in M if not args or any(m[0].startswith(a) for a in args)]
    sh('git -C /repo worktree prune')
    r = sh('git -C /repo worktree add --detach %s' % WT)
    if r.returncode != 0:
        print(r.stderr); return 1
    log = open(os.path.join(VERIF, 'notes', 'mutants.log'), 'a')
    try:
        for mid, prop, f, old, new in sel:
            path = os.path.join(WT, f)
            s = open(path).read()
            if old not in s:
                line = '%s %s NOT-APPLICABLE (pattern not found in %s)' % (mid, prop, f)
                print(line); log.write(line + '\n'); log.flush(); continue
            open(path, 'w').write(s.replace(old, new, 1))
            t0 = time.time()
            env = dict(os.environ, VERIF_REPO=WT, VERIF_SEED=os.environ.get('VERIF_SEED', '1'))
            r = subprocess.run([os.path.join(VERIF, 'check'), prop, '--tier', tier], cwd=VERIF, env=env, capture_output=True, text=True)
            verdict = {0: 'MISSED', 1: 'CAUGHT', 2: 'INCONCLUSIVE(exit2)'}.get(r.returncode, 'rc=%d' % r.returncode)
            first = ''
            for l in r.stdout.splitlines():
                if '[rapid] failed' in l or '[rapid] panic' in l or 'FAIL:' in l or 'INFRA' in l:
                    first = l.strip()[:220]; break
            line = '%s %s %s tier=%s %.0fs %s' % (mid, prop, verdict, tier, time.time() - t0, first)
            print(line, flush=True); log.write(line + '\n'); log.flush()
            sh('git -C %s checkout -- .' % WT)
    finally:
        sh('git -C /repo worktree remove --force %s' % WT)
        shutil.rmtree(WT, ignore_errors=True)
    return 0

if __name__ == '__main__':
    sys.exit(main())
