#!/usr/bin/env python3
import json, glob, os
V = os.path.dirname(os.path.dirname(os.path.abspath(__file__)))
rows = []
for d in sorted(glob.glob(os.path.join(V, 'seeded', '*'))):
    m = json.load(open(os.path.join(d, 'meta.json')))
    runs = m.get('check_runs', [])
    last = runs[-1] if runs else {}
    hist = ' → '.join(r['verdict'] for r in runs) or 'not run'
    rows.append((os.path.basename(d), m['property'], m['summary'].split('. ')[0][:150].replace('|', '/'), m.get('needs_to_manifest', '')[:160].replace('|', '/').replace('\n', ' '), hist, (last.get('first_failure') or '')[:120].replace('|', '/')))
out = ['# Seeded defects (independent sub-agents; confirmed by the lead) and what the checks did with them', '',
       'Each directory `/verif/seeded/<id>/` holds patch.diff, the demonstration and meta.json. "history" lists every run of the',
       "property's quick tier against the patch (applied in a scratch worktree); MISSED → CAUGHT means the check was strengthened in between.", '',
       '| id | property | change | needs | history | first failure reported |', '|---|---|---|---|---|---|']
for r in rows:
    out.append('| %s | %s | %s | %s | %s | %s |' % r)
open(os.path.join(V, 'notes', 'SEEDED.md'), 'w').write('\n'.join(out) + '\n')
print(len(rows), 'seeded defects;', sum(1 for r in rows if r[4].endswith('CAUGHT')), 'caught')
