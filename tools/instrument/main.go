// Command instrument produces an instrumented copy of keepstore's
// unix_volume.go for the C02 / C04 checks.
//
//	instrument <in: unix_volume.go of the working tree> <out>
//
// It works purely by AST pattern (stdlib only), never by line number, so that
// it keeps working when the input file is edited:
//
//   - before every statement whose own expressions (not nested blocks, not
//     function literals, not defer/go) contain a call that performs a
//     filesystem step, `verifPoint("L<line>:<func>:<callee>")` is inserted;
//   - calls with a well-known result shape (error / (*os.File, error) /
//     (os.FileInfo, error)) are wrapped in verifErr / verifFileErr /
//     verifInfoErr so a controller can make that step fail;
//   - the destination of io.Copy inside WriteBlock is wrapped in
//     verifChunkWriter so each data write (and a partial write) is a point;
//   - every function that received a point starts with
//     `defer verifEnter("<func>")()` so a harness can wait for background
//     calls to finish;
//   - the list of static points is appended as `var verifStaticPoints`.
//
// Insertions are spliced into the original text on the same line, so line
// numbers of the copy equal those of the input (compile errors and stack
// traces stay readable) and comments are untouched. The result is re-parsed
// before it is written.
package main

import (
	"bytes"
	"fmt"
	"go/ast"
	"go/parser"
	"go/printer"
	"go/token"
	"os"
	"sort"
	"strconv"
	"strings"
)

type insertion struct {
	off  int
	prio int // lower = earlier in the output at the same offset
	seq  int
	text string
}

type inst struct {
	fset    *token.FileSet
	file    *ast.File
	src     []byte
	ins     []insertion
	seq     int
	imports map[string]bool
	// result shape of functions/methods declared in this file, by name
	// ("osWithStats.Rename", "lockfile", ...): "err", "file", "info", "".
	shapes  map[string]string
	points  []string
	seen    map[string]bool
	wrapped map[ast.Node]bool
}

// functions on the package identifiers os/ioutil/syscall that do not touch
// the filesystem.
var pureFuncs = map[string]bool{
	"IsNotExist": true, "IsExist": true, "IsPermission": true, "IsTimeout": true,
	"Getpid": true, "Getenv": true, "Getuid": true, "Geteuid": true, "FileMode": true,
	"NopCloser": true, "NewSyscallError": true, "Errno": true, "Exit": true,
	"ReadAll": true, "Getpagesize": true, "Hostname": true,
}

// methods that are filesystem steps when called on an arbitrary local value
// (tmpfile.Close(), f.Write(), rootdir.Readdirnames(1), ...).
var fileMethods = map[string]bool{
	"Write": true, "WriteString": true, "WriteAt": true, "ReadFrom": true,
	"Close": true, "Sync": true, "Truncate": true, "Chmod": true, "Chown": true,
	"Readdir": true, "Readdirnames": true, "ReadDir": true,
}

var lockMethods = map[string]bool{"lock": true, "unlock": true, "lockfile": true, "unlockfile": true}

var stdShapes = map[string]string{
	"os.MkdirAll": "err", "os.Mkdir": "err", "os.Chtimes": "err", "os.Rename": "err",
	"os.Remove": "err", "os.RemoveAll": "err", "os.Symlink": "err", "os.Link": "err",
	"os.Chmod": "err", "os.Truncate": "err", "syscall.Flock": "err", "syscall.Unlink": "err",
	"syscall.Rename": "err", "syscall.Mkdir": "err",
	"os.Open": "file", "os.OpenFile": "file", "os.Create": "file", "os.CreateTemp": "file",
	"ioutil.TempFile": "file",
	"os.Stat":         "info", "os.Lstat": "info",
}

func main() {
	if len(os.Args) != 3 {
		fmt.Fprintln(os.Stderr, "usage: instrument <in.go> <out.go>")
		os.Exit(2)
	}
	src, err := os.ReadFile(os.Args[1])
	if err != nil {
		fmt.Fprintln(os.Stderr, "instrument:", err)
		os.Exit(1)
	}
	out, err := instrument(os.Args[1], src)
	if err != nil {
		fmt.Fprintln(os.Stderr, "instrument:", err)
		os.Exit(1)
	}
	if err := os.WriteFile(os.Args[2], out, 0644); err != nil {
		fmt.Fprintln(os.Stderr, "instrument:", err)
		os.Exit(1)
	}
}

func instrument(name string, src []byte) ([]byte, error) {
	fset := token.NewFileSet()
	f, err := parser.ParseFile(fset, name, src, parser.ParseComments)
	if err != nil {
		return nil, err
	}
	in := &inst{fset: fset, file: f, src: src, imports: map[string]bool{}, shapes: map[string]string{},
		seen: map[string]bool{}, wrapped: map[ast.Node]bool{}}
	for _, imp := range f.Imports {
		p, _ := strconv.Unquote(imp.Path.Value)
		n := p[strings.LastIndex(p, "/")+1:]
		if imp.Name != nil {
			n = imp.Name.Name
		}
		in.imports[n] = true
	}
	for _, d := range f.Decls {
		fd, ok := d.(*ast.FuncDecl)
		if !ok {
			continue
		}
		shape := in.resultShape(fd.Type)
		if r := recvName(fd); r != "" {
			in.shapes[r+"."+fd.Name.Name] = shape
		}
		if _, dup := in.shapes[fd.Name.Name]; !dup {
			in.shapes[fd.Name.Name] = shape
		}
	}
	for _, d := range f.Decls {
		fd, ok := d.(*ast.FuncDecl)
		if !ok || fd.Body == nil {
			continue
		}
		if recvName(fd) == "osWithStats" || lockMethods[fd.Name.Name] {
			// thin wrappers around one os call / the lock primitives
			// themselves: their call sites are the points.
			continue
		}
		before := len(in.points)
		in.walk(fd.Name.Name, fd.Body)
		if len(in.points) > before {
			in.add(in.off(fd.Body.Lbrace)+1, 0, fmt.Sprintf(" defer verifEnter(%q)();", fd.Name.Name))
		}
	}
	out := in.splice()
	var tail bytes.Buffer
	tail.WriteString("\n// Static list of instrumented points (generated).\nvar verifStaticPoints = []string{\n")
	for _, p := range in.points {
		fmt.Fprintf(&tail, "\t%q,\n", p)
	}
	tail.WriteString("}\n")
	out = append(out, tail.Bytes()...)
	// the result must parse
	if _, err := parser.ParseFile(token.NewFileSet(), name+" (instrumented)", out, 0); err != nil {
		return nil, fmt.Errorf("instrumented output does not parse: %v", err)
	}
	return out, nil
}

func recvName(fd *ast.FuncDecl) string {
	if fd.Recv == nil || len(fd.Recv.List) == 0 {
		return ""
	}
	t := fd.Recv.List[0].Type
	if s, ok := t.(*ast.StarExpr); ok {
		t = s.X
	}
	if id, ok := t.(*ast.Ident); ok {
		return id.Name
	}
	return ""
}

func (in *inst) exprText(e ast.Node) string {
	var b bytes.Buffer
	printer.Fprint(&b, in.fset, e)
	return b.String()
}

func (in *inst) resultShape(ft *ast.FuncType) string {
	if ft.Results == nil {
		return ""
	}
	var types []string
	for _, fld := range ft.Results.List {
		n := len(fld.Names)
		if n == 0 {
			n = 1
		}
		for i := 0; i < n; i++ {
			types = append(types, in.exprText(fld.Type))
		}
	}
	switch strings.Join(types, ",") {
	case "error":
		return "err"
	case "*os.File,error":
		return "file"
	case "os.FileInfo,error":
		return "info"
	}
	return ""
}

func (in *inst) off(p token.Pos) int { return in.fset.Position(p).Offset }

func (in *inst) add(off, prio int, text string) {
	in.seq++
	in.ins = append(in.ins, insertion{off, prio, in.seq, text})
}

func (in *inst) splice() []byte {
	sort.Slice(in.ins, func(i, j int) bool {
		a, b := in.ins[i], in.ins[j]
		if a.off != b.off {
			return a.off < b.off
		}
		if a.prio != b.prio {
			return a.prio < b.prio
		}
		return a.seq < b.seq
	})
	var out bytes.Buffer
	pos := 0
	for _, i := range in.ins {
		out.Write(in.src[pos:i.off])
		out.WriteString(i.text)
		pos = i.off
	}
	out.Write(in.src[pos:])
	return out.Bytes()
}

// callee returns the display name of a call that is a filesystem step, or "".
func (in *inst) callee(c *ast.CallExpr) string {
	sel, ok := c.Fun.(*ast.SelectorExpr)
	if !ok {
		return ""
	}
	m := sel.Sel.Name
	switch x := sel.X.(type) {
	case *ast.Ident:
		switch {
		case x.Name == "os" || x.Name == "ioutil" || x.Name == "syscall":
			if pureFuncs[m] || !in.imports[x.Name] {
				return ""
			}
			return x.Name + "." + m
		case x.Name == "io" && m == "Copy":
			return "io.Copy"
		case x.Name == "filepath" && (m == "Walk" || m == "WalkDir"):
			return "filepath." + m
		case in.imports[x.Name]:
			return ""
		case lockMethods[m]:
			return x.Name + "." + m
		case fileMethods[m]:
			return x.Name + "." + m
		}
	case *ast.SelectorExpr:
		// v.os.Rename(...)  (but not v.os.stats.Tick(...))
		if id, ok := x.X.(*ast.Ident); ok && x.Sel.Name == "os" && !in.imports[id.Name] {
			return id.Name + ".os." + m
		}
	}
	return ""
}

// ownCalls lists the filesystem-step calls in the expressions that belong to
// stmt itself (executed when control reaches stmt, before any nested block).
func (in *inst) ownCalls(stmt ast.Stmt) []*ast.CallExpr {
	var roots []ast.Node
	switch s := stmt.(type) {
	case *ast.IfStmt:
		roots = []ast.Node{s.Init, s.Cond}
	case *ast.ForStmt:
		roots = []ast.Node{s.Init, s.Cond}
	case *ast.RangeStmt:
		roots = []ast.Node{s.X}
	case *ast.SwitchStmt:
		roots = []ast.Node{s.Init, s.Tag}
	case *ast.TypeSwitchStmt:
		roots = []ast.Node{s.Init, s.Assign}
	case *ast.LabeledStmt:
		return in.ownCalls(s.Stmt)
	case *ast.DeferStmt, *ast.GoStmt, *ast.SelectStmt, *ast.BlockStmt, *ast.DeclStmt, *ast.EmptyStmt:
		return nil
	default:
		roots = []ast.Node{stmt}
	}
	var calls []*ast.CallExpr
	for _, r := range roots {
		if r == nil || isNilNode(r) {
			continue
		}
		ast.Inspect(r, func(n ast.Node) bool {
			switch n := n.(type) {
			case *ast.FuncLit:
				return false
			case *ast.BlockStmt:
				return false
			case *ast.CallExpr:
				if in.callee(n) != "" {
					calls = append(calls, n)
				}
			}
			return true
		})
	}
	return calls
}

func isNilNode(n ast.Node) bool {
	switch v := n.(type) {
	case ast.Stmt:
		return v == nil
	case ast.Expr:
		return v == nil
	}
	return false
}

func (in *inst) label(fn string, pos token.Pos, callee string) string {
	return fmt.Sprintf("L%d:%s:%s", in.fset.Position(pos).Line, fn, callee)
}

func (in *inst) point(l string) {
	if !in.seen[l] {
		in.seen[l] = true
		in.points = append(in.points, l)
	}
}

// walk visits every statement list below n.
func (in *inst) walk(fn string, n ast.Node) {
	ast.Inspect(n, func(n ast.Node) bool {
		var list []ast.Stmt
		switch b := n.(type) {
		case *ast.BlockStmt:
			list = b.List
		case *ast.CaseClause:
			list = b.Body
		case *ast.CommClause:
			list = b.Body
		default:
			return true
		}
		for _, st := range list {
			in.stmt(fn, st)
		}
		return true
	})
}

func (in *inst) stmt(fn string, st ast.Stmt) {
	switch cc := st.(type) {
	case *ast.CaseClause:
		// the body of a switch is a block of case clauses: no statement can
		// be put in front of "case"; the clause body is visited by walk on
		// its own. Calls in the case expressions are wrapped without a point.
		for _, e := range cc.List {
			ast.Inspect(e, func(n ast.Node) bool {
				switch n := n.(type) {
				case *ast.FuncLit:
					return false
				case *ast.CallExpr:
					if in.callee(n) != "" {
						in.wrap(fn, n)
					}
				}
				return true
			})
		}
		return
	case *ast.CommClause:
		return
	}
	calls := in.ownCalls(st)
	if len(calls) == 0 {
		return
	}
	first := calls[0]
	name := in.callee(first)
	if strings.HasSuffix(name, ".OpenFile") && strings.Contains(in.exprText(first), "O_CREAT") {
		name += "[O_CREATE]"
	}
	l := in.label(fn, first.Pos(), name)
	in.point(l)
	in.add(in.off(st.Pos()), 1, fmt.Sprintf("verifPoint(%q); ", l))
	for _, c := range calls {
		in.wrap(fn, c)
	}
}

func (in *inst) wrap(fn string, c *ast.CallExpr) {
	if in.wrapped[c] {
		return
	}
	in.wrapped[c] = true
	name := in.callee(c)
	if name == "io.Copy" {
		if fn == "WriteBlock" && len(c.Args) == 2 {
			wl := in.label(fn, c.Pos(), "write")
			in.point(wl)
			in.point(wl + ".mid")
			in.add(in.off(c.Args[0].Pos()), 3, fmt.Sprintf("verifChunkWriter(%q, ", wl))
			in.add(in.off(c.Args[0].End()), 0, ")")
		}
		return
	}
	shape := ""
	sel := c.Fun.(*ast.SelectorExpr)
	m := sel.Sel.Name
	switch {
	case stdShapes[name] != "":
		shape = stdShapes[name]
	case strings.Contains(name, ".os."):
		shape = in.shapes["osWithStats."+m]
	case lockMethods[m]:
		shape = in.shapes[m]
	case m == "Close" || m == "Sync":
		if len(c.Args) == 0 {
			shape = "err"
		}
	}
	if strings.HasSuffix(name, ".OpenFile") && strings.Contains(in.exprText(c), "O_CREAT") {
		name += "[O_CREATE]"
	}
	l := in.label(fn, c.Pos(), name)
	var helper, typ string
	switch shape {
	case "err":
		helper, typ = "verifErr", "error"
	case "file":
		helper, typ = "verifFileErr", "(*os.File, error)"
	case "info":
		helper, typ = "verifInfoErr", "(os.FileInfo, error)"
	default:
		return
	}
	in.add(in.off(c.Pos()), 2, fmt.Sprintf("%s(%q, func() %s { return ", helper, l, typ))
	in.add(in.off(c.End()), 0, " })")
}
