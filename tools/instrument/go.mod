module verif.local/instrument

go 1.21
