#!/usr/bin/env python3
"""Run every claimed check (quick or thorough) at the given seeds on the unchanged tree; print rc and wall."""
import json, subprocess, sys, time, os
V = os.path.dirname(os.path.dirname(os.path.abspath(__file__)))
tier = sys.argv[1] if len(sys.argv) > 1 else 'quick'
seeds = sys.argv[2:] or ['1']
m = json.load(open(os.path.join(V, 'MANIFEST.json')))
for seed in seeds:
    for c in m['checks']:
        pid = c['property_id']
        t0 = time.time()
        r = subprocess.run([os.path.join(V, 'check'), pid, '--tier', tier], cwd=V, env=dict(os.environ, VERIF_SEED=seed), capture_output=True, text=True)
        last = [l for l in r.stdout.splitlines() if l.startswith(('OK ', 'VIOLATION', 'INCONCLUSIVE', 'KNOWN-FINDING', 'INFRA'))]
        print('%s seed=%s rc=%d %.0fs %s' % (pid, seed, r.returncode, time.time() - t0, ' | '.join(x[:160] for x in last)), flush=True)
        if r.returncode != 0:
            open(os.path.join(V, 'work', 'sweep-%s-%s-%s.log' % (pid, tier, seed)), 'w').write(r.stdout + r.stderr)
