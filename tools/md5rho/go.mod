module md5rho
go 1.21
