// md5rho finds two 15-character keys kkXXXXXXXXXXXXX whose MD5(hash+key) agree in their first -hex
// hex digits (Brent cycle finding; ~2^(2*hex+1) MD5 evaluations: seconds for 12, minutes for 14, about
// an hour for 16). Used once to produce the table nearmd5.Pinned (C12, round 2):
//   go run . -hash 10eab6008d5642cf42abd2aa41f847cb -hex 14

package main

import (
	"crypto/md5"
	"encoding/binary"
	"flag"
	"fmt"
	"time"
)

const alnum = "0123456789abcdefghijklmnopqrstuvwxyz"

var hash string
var mask uint64
var buf [47]byte

func enc(x uint64, out []byte) {
	// 15 chars: 'k' 'k' + 13 base36 digits
	out[0], out[1] = 'k', 'k'
	for i := 14; i >= 2; i-- {
		out[i] = alnum[x%36]
		x /= 36
	}
}

func f(x uint64) uint64 {
	enc(x, buf[32:])
	s := md5.Sum(buf[:])
	return binary.BigEndian.Uint64(s[:8]) & mask
}

func main() {
	h := flag.String("hash", "", "32 hex")
	hexd := flag.Int("hex", 16, "hex digits")
	start := flag.Uint64("start", 1, "start")
	flag.Parse()
	hash = *h
	copy(buf[:32], hash)
	mask = ^uint64(0) << uint(64-4**hexd)
	t0 := time.Now()
	// Brent
	x0 := *start & mask
	power, lam := uint64(1), uint64(1)
	tort := x0
	hare := f(x0)
	for tort != hare {
		if power == lam {
			tort = hare
			power *= 2
			lam = 0
		}
		hare = f(hare)
		lam++
	}
	fmt.Printf("lambda=%d after %v\n", lam, time.Since(t0))
	tort, hare = x0, x0
	for i := uint64(0); i < lam; i++ {
		hare = f(hare)
	}
	var pt, ph uint64
	mu := uint64(0)
	for tort != hare {
		pt, ph = tort, hare
		tort = f(tort)
		hare = f(hare)
		mu++
	}
	if mu == 0 {
		fmt.Println("start on cycle; retry with another start")
		return
	}
	var a, b [15]byte
	enc(pt, a[:])
	enc(ph, b[:])
	wa := md5.Sum([]byte(hash + string(a[:])))
	wb := md5.Sum([]byte(hash + string(b[:])))
	fmt.Printf("mu=%d total %v\nRESULT hash=%s hex=%d a=%s b=%s wa=%x wb=%x\n", mu, time.Since(t0), hash, *hexd, a, b, wa, wb)
}
