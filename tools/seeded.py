#!/usr/bin/env python3
"""Validate and run seeded defects.
   tools/seeded.py import /tmp/seed-out/C10-1 [...]   copy into /verif/seeded/<id>/ after confirming the demo fails with / passes without the patch
   tools/seeded.py run [id ...]                        run the quick tier of the property's check against a scratch worktree with the patch applied
Scratch worktrees live under /tmp and are removed afterwards."""
import sys, os, json, subprocess, shutil, time, glob

VERIF = os.path.dirname(os.path.dirname(os.path.abspath(__file__)))
GOENV = dict(os.environ, GOFLAGS='-mod=mod', GOPROXY='off', GOSUMDB='off', GOTOOLCHAIN='local')


def sh(cmd, cwd=None, env=None, timeout=3600):
    return subprocess.run(cmd, shell=True, cwd=cwd, env=env or GOENV, capture_output=True, text=True, timeout=timeout)


def worktree():
    wt = '/tmp/wt-seeded-%d-%d' % (os.getpid(), int(time.time()))
    sh('git -C /repo worktree prune')
    r = sh('git -C /repo worktree add --detach %s' % wt)
    if r.returncode != 0:
        raise SystemExit(r.stderr)
    return wt


def rm_worktree(wt):
    sh('git -C /repo worktree remove --force %s' % wt)
    shutil.rmtree(wt, ignore_errors=True)


PAM_DST = 'lib/controller/localdb/login_pam.go'


def pam_standin(wt, sdir, on):
    src = os.path.join(sdir, 'login_pam_nocgo.go')
    if not os.path.exists(src):
        return
    if on:
        shutil.copy(src, os.path.join(wt, PAM_DST))
    else:
        sh('git checkout -- %s' % PAM_DST, cwd=wt)


def run_demo(wt, meta, sdir):
    pam_standin(wt, sdir, True)
    try:
        return run_demo2(wt, meta, sdir)
    finally:
        pam_standin(wt, sdir, False)


def run_demo2(wt, meta, sdir):
    pkg = meta.get('demo_pkg_dir', '.')
    demos = [f for f in os.listdir(sdir) if f.endswith('_test.go') or f == 'demo.py']
    env = dict(GOENV, ARVADOS_API_HOST='x')
    for d in demos:
        if d.endswith('.go'):
            shutil.copy(os.path.join(sdir, d), os.path.join(wt, pkg, d))
    if 'demo.py' in demos:
        cmd = meta.get('demo_cmd', 'python3 demo.py .').replace('<repo root>', wt)
        r = sh('python3 %s %s' % (os.path.join(sdir, 'demo.py'), wt), cwd=wt)
    else:
        r = sh(meta['demo_cmd'], cwd=os.path.join(wt, pkg), env=env)
    for d in demos:
        if d.endswith('.go'):
            os.remove(os.path.join(wt, pkg, d))
    return r


def do_import(paths):
    for src in paths:
        sid = os.path.basename(src.rstrip('/'))
        meta = json.load(open(os.path.join(src, 'meta.json')))
        wt = worktree()
        try:
            r0 = run_demo(wt, meta, src)
            ra = sh('git apply %s' % os.path.join(src, 'patch.diff'), cwd=wt)
            if ra.returncode != 0:
                print(sid, 'PATCH DOES NOT APPLY', ra.stderr); continue
            files = sh('git diff --name-only', cwd=wt).stdout.split()
            pkgs = sorted(set(os.path.dirname(f) for f in files if f.endswith('.go')))
            pam_standin(wt, src, True)
            build_ok = all(sh('go build . && go test -vet=off -count=1 -run "^$" .', cwd=os.path.join(wt, p)).returncode == 0 for p in pkgs)
            pam_standin(wt, src, False)
            r1 = run_demo(wt, meta, src)
            ok = r0.returncode == 0 and r1.returncode != 0 and build_ok
            print('%s demo_without=%s demo_with=%s build=%s -> %s' % (sid, r0.returncode, r1.returncode, build_ok, 'CONFIRMED' if ok else 'REJECTED'))
            if not ok:
                print((r0.stdout + r0.stderr)[-1500:]); print((r1.stdout + r1.stderr)[-1500:])
                continue
            dst = os.path.join(VERIF, 'seeded', sid)
            shutil.rmtree(dst, ignore_errors=True)
            shutil.copytree(src, dst)
            meta['confirmed'] = {'demo_passes_without_patch': True, 'demo_fails_with_patch': True, 'builds_with_patch': True,
                                 'files': files, 'at_repo_commit': sh('git -C /repo rev-parse --short HEAD').stdout.strip()}
            json.dump(meta, open(os.path.join(dst, 'meta.json'), 'w'), indent=1)
        finally:
            rm_worktree(wt)


def do_run(ids, tier='quick'):
    sdirs = sorted(glob.glob(os.path.join(VERIF, 'seeded', '*')))
    for sdir in sdirs:
        sid = os.path.basename(sdir)
        if ids and not any(sid.startswith(i) for i in ids):
            continue
        meta = json.load(open(os.path.join(sdir, 'meta.json')))
        wt = worktree()
        try:
            ra = sh('git apply %s' % os.path.join(sdir, 'patch.diff'), cwd=wt)
            if ra.returncode != 0:
                print(sid, 'PATCH DOES NOT APPLY to current HEAD', ra.stderr); continue
            t0 = time.time()
            env = dict(os.environ, VERIF_REPO=wt, VERIF_SEED=os.environ.get('VERIF_SEED', '1'))
            r = subprocess.run([os.path.join(VERIF, 'check'), meta['property'], '--tier', tier], cwd=VERIF, env=env, capture_output=True, text=True)
            verdict = {0: 'MISSED', 1: 'CAUGHT', 2: 'INCONCLUSIVE'}.get(r.returncode, str(r.returncode))
            first = ''
            for l in r.stdout.splitlines():
                if '[rapid] failed' in l or '[rapid] panic' in l or 'FAIL:' in l or 'INFRA' in l or 'VERIF-HANG' in l:
                    first = l.strip()[:300]; break
            print('%s %s %s tier=%s %.0fs %s' % (sid, meta['property'], verdict, tier, time.time() - t0, first), flush=True)
            meta.setdefault('check_runs', []).append({'tier': tier, 'seed': env['VERIF_SEED'], 'verdict': verdict, 'first_failure': first,
                                                      'verif_commit': sh('git -C %s rev-parse --short HEAD' % VERIF).stdout.strip()})
            json.dump(meta, open(os.path.join(sdir, 'meta.json'), 'w'), indent=1)
        finally:
            rm_worktree(wt)


if __name__ == '__main__':
    if sys.argv[1] == 'import':
        do_import(sys.argv[2:])
    elif sys.argv[1] == 'run':
        a = sys.argv[2:]
        tier = 'quick'
        if a[:1] == ['--tier']:
            tier = a[1]; a = a[2:]
        do_run(a, tier)
